#!/usr/bin/env python3
"""vcheck -- solver-based checks (Kani/CBMC) of gluon's real code.

    vcheck <ID> [--tier quick|thorough] [--replay PATH] [--only SUBSTR] [--keep]

Exit codes: 0 property held on everything explored (KNOWN-FINDING lines allowed)
            1 VIOLATION (printed as `VIOLATION property=<id> replay=<path>`)
            2 INCONCLUSIVE (timeout, OOM, unwinding failure, build error, vacuity, ...)

See /verif/DESIGN.md sections 2.1-2.6.
"""
import argparse
import glob
import json
import os
import re
import shutil
import subprocess
import sys
import time

VERIF = os.path.dirname(os.path.dirname(os.path.abspath(__file__)))
REPO = os.environ.get("VERIF_REPO", "/repo")
HARNESS_DIR = os.path.join(VERIF, "harness")
GEN_DIR = os.path.join(VERIF, "gen")
EVIDENCE_DIR = os.environ.get("VERIF_EVIDENCE_DIR") or os.path.join(VERIF, "evidence")
REPLAY_DIR = os.environ.get("VERIF_REPLAY_DIR") or os.path.join(VERIF, "replays")
KNOWN = os.path.join(VERIF, "known_findings.json")
SCRATCH_ROOT = os.environ.get("VERIF_SCRATCH", "/var/tmp")
JOBS = int(os.environ.get("VERIF_JOBS", "14"))
TOTAL_MEM_KB = int(os.environ.get("VERIF_TOTAL_MEM_KB", str(50 * 1024 * 1024)))
MEM_KB = int(os.environ.get("VERIF_MEM_KB", str(10 * 1024 * 1024)))  # per process (ulimit -v)
DEFAULT_MEM_GB = int(os.environ.get("VERIF_DEFAULT_MEM_GB", "8"))
COMPILER_MEM_KB = int(os.environ.get("VERIF_COMPILER_MEM_KB", str(12 * 1024 * 1024)))
SOLO_MEM_KB = int(os.environ.get("VERIF_SOLO_MEM_KB", str(40 * 1024 * 1024)))  # retry alone

CRATE_OF_DIR = {"vm": "gluon_vm", "base": "gluon_base", "parser": "gluon_parser",
                "check": "gluon_check", "format": "gluon_format"}


def log(*a):
    print("[vcheck]", *a, file=sys.stderr, flush=True)


# --------------------------------------------------------------------------------------------
# harness sources and their annotations
# --------------------------------------------------------------------------------------------

class Harness:
    def __init__(self, name, ann, file, append_to):
        self.name = name
        self.file = file
        self.append_to = append_to
        self.crate = CRATE_OF_DIR[append_to.split("/")[0]]
        self.prop = "C" + name[1:3]
        self.tier = ann.get("tier", "quick")
        self.cap = int(ann.get("cap", "600"))
        self.mem_gb = int(ann.get("mem", "0"))  # 0 = default per-process memory cap
        self.unwindset = []
        for ent in filter(None, ann.get("unwindset", "").split(",")):
            pat, n = ent.rsplit(":", 1)
            self.unwindset.append((pat, int(n)))
        self.funcs = [f for f in ann.get("funcs", "").split(",") if f]
        self.bound = ann.get("bound", "")
        self.is_canary = name.endswith("_canary")
        # filled in by the run
        self.pretty = None
        self.status = "NOTRUN"
        self.checks_total = 0
        self.failed = []      # list of dict(desc, loc, fn, cls)
        self.covers = (0, 0)  # satisfied, total
        self.unsat_covers = []
        self.time_s = None
        self.resolved_unwindset = []
        self.known = []       # matched known-finding entries
        self.unexplained = []

    def group_key(self):
        # one `cargo kani` invocation (= one build) per crate and unwindset; the memory class only
        # steers how many CBMC processes run side by side (see run_group)
        return (self.crate, tuple(self.unwindset))


# a harness declared through a macro: `some_macro!(c01_name, ...`
MACRO_RE = re.compile(r"^\s*\w+!\s*\(\s*(c\d\d_[A-Za-z0-9_]+)\s*,")
FN_RE = re.compile(r"^\s*(?:pub\s+)?fn\s+(c\d\d_[A-Za-z0-9_]+)\s*\(")


def parse_harness_file(path):
    """Returns (append_to, [Harness])."""
    append_to = None
    harnesses = []
    ann = {}
    saw_proof = False
    with open(path) as f:
        for line in f:
            s = line.strip()
            m = re.match(r"//@@\s*append-to:\s*(\S+)", s)
            if m:
                append_to = m.group(1)
                continue
            if s.startswith("//@"):
                for kv in s[3:].split():
                    if "=" in kv:
                        k, v = kv.split("=", 1)
                        ann[k] = (ann[k] + "," + v) if (k in ann and k in ("unwindset", "funcs")) else v
                continue
            if s.startswith("#[kani::proof"):
                saw_proof = True
                continue
            mm = MACRO_RE.match(line)
            if mm:
                harnesses.append(Harness(mm.group(1), ann, path, append_to))
                ann = {}
                saw_proof = False
                continue
            m = FN_RE.match(line)
            if m and saw_proof:
                harnesses.append(Harness(m.group(1), ann, path, append_to))
                ann = {}
                saw_proof = False
            elif s and not s.startswith("#[") and not s.startswith("//"):
                if not saw_proof:
                    ann = {}
    if append_to is None:
        raise SystemExit("harness file %s lacks an //@@ append-to: line" % path)
    for h in harnesses:
        h.append_to = append_to
        h.crate = CRATE_OF_DIR[append_to.split("/")[0]]
    return append_to, harnesses


# --------------------------------------------------------------------------------------------
# scratch copy + overlay
# --------------------------------------------------------------------------------------------

class Workspace:
    def __init__(self, keep=False):
        fixed = os.environ.get("VERIF_WORKDIR")  # development only: reuse build output
        if fixed:
            self.root = fixed
            self.keep = True
            os.makedirs(self.root, exist_ok=True)
        else:
            self.root = os.path.join(SCRATCH_ROOT, "gluon-verif.%d" % os.getpid())
            self.keep = keep
            if os.path.exists(self.root):
                shutil.rmtree(self.root)
            os.makedirs(self.root)
        self.repo = os.path.join(self.root, "repo")
        self.target = os.path.join(self.root, "kt")
        self.hdir = os.path.join(self.root, "harness")

    def cleanup(self):
        if not self.keep:
            shutil.rmtree(self.root, ignore_errors=True)

    def sync(self):
        subprocess.check_call(["rsync", "-a", "--delete", "--exclude", "/target", "--exclude", ".git",
                               REPO + "/", self.repo + "/"])
        os.makedirs(self.hdir, exist_ok=True)

    def overlay_manifest(self):
        """Kani's std override cannot build futures-0.1 (pulled in only by futures' `compat`
        feature, which gluon_vm never uses).  Guarded: if the sources start using it, stop."""
        for root, _, files in os.walk(os.path.join(self.repo, "vm", "src")):
            for fn in files:
                if fn.endswith(".rs"):
                    txt = open(os.path.join(root, fn), errors="replace").read()
                    if re.search(r"futures::compat|futures01|Compat01As03|\.compat\(\)", txt):
                        raise Inconclusive("vm sources use futures' compat API; overlay would change semantics")
        p = os.path.join(self.repo, "vm", "Cargo.toml")
        txt = open(p).read()
        new = re.sub(r'(futures\s*=\s*\{[^}]*features\s*=\s*\[)([^\]]*)\]',
                     lambda m: m.group(1) + ", ".join(x for x in [y.strip() for y in m.group(2).split(",")]
                                                     if x and x != '"compat"') + "]", txt, count=1)
        open(p, "w").write(new)

    def install(self, files):
        """files: {harness source path: append_to}.  Copies the harness next to the scratch copy
        and appends one `mod` line to the target source file (a child module sees its private
        items).  The original text of the target file is untouched."""
        for i, (src, append_to) in enumerate(sorted(files.items())):
            dst = os.path.join(self.hdir, os.path.basename(src))
            shutil.copyfile(src, dst)
            tgt = os.path.join(self.repo, append_to)
            if not os.path.exists(tgt):
                raise Inconclusive("source file %s no longer exists" % append_to)
            modname = modname_of(src)
            with open(tgt, "a") as f:
                f.write('\n#[cfg(kani)] #[path = "%s"] pub(crate) mod %s;\n' % (dst, modname))
            # `//@@ crate-feature: <name>`: an unstable library feature the harness itself needs (to
            # name a std type in a stub signature); enabled under cfg(kani) only, at the crate root
            for feat in re.findall(r"^//@@\s*crate-feature:\s*(\w+)", open(src).read(), re.M):
                root = os.path.join(self.repo, append_to.split("/")[0], "src", "lib.rs")
                txt = open(root).read()
                line = "#![cfg_attr(kani, feature(%s))]\n" % feat
                if line not in txt:
                    open(root, "w").write(line + txt)


class Inconclusive(Exception):
    pass


# --------------------------------------------------------------------------------------------
# running kani
# --------------------------------------------------------------------------------------------

def run(cmd, cwd, timeout, logfile, env=None, mem_kb=None):
    e = dict(os.environ)
    e["CARGO_NET_OFFLINE"] = "true"
    e.pop("RUSTFLAGS", None)
    if env:
        e.update(env)
    pre = "ulimit -v %d; exec " % (mem_kb or MEM_KB)
    with open(logfile, "ab") as lf:
        lf.write(("\n$ " + " ".join(cmd) + "\n").encode())
        lf.flush()
        # own process group, so that a timeout -- or the end of this driver -- takes cargo-kani,
        # kani-driver and every cbmc of this run down with it and nothing else
        p = subprocess.Popen(["bash", "-c", pre + " ".join(shquote(c) for c in cmd)], cwd=cwd, env=e,
                             stdout=lf, stderr=subprocess.STDOUT, start_new_session=True)
        _children.add(p.pid)
        try:
            return p.wait(timeout=timeout)
        except subprocess.TimeoutExpired:
            _killpg(p.pid)
            p.wait()
            return -9
        finally:
            _children.discard(p.pid)


_children = set()


def _killpg(pid):
    import signal
    try:
        os.killpg(pid, signal.SIGKILL)
    except OSError:
        pass


def _on_term(signum, frame):
    for pid in list(_children):
        _killpg(pid)
    raise SystemExit(2)


def shquote(s):
    return "'" + s.replace("'", "'\\''") + "'"


def kani_base(ws, crate):
    return ["cargo", "kani", "-Z", "stubbing", "-Z", "unstable-options", "-p", crate,
            "--target-dir", ws.target]


def module_path(append_to):
    """vm/src/api/mod.rs -> api ; parser/src/token.rs -> token"""
    rel = append_to.split("/src/", 1)[1]
    rel = re.sub(r"\.rs$", "", rel)
    rel = re.sub(r"(^|/)mod$", "", rel)
    return rel.strip("/").replace("/", "::")


def modname_of(path):
    return "__verif_" + re.sub(r"[^A-Za-z0-9]", "_", os.path.basename(path)[:-3]).lower()


def find_metadata(ws, crate, names):
    """Newest kani-metadata.json of `crate` that lists all wanted harnesses."""
    best = None
    for p in glob.glob(os.path.join(ws.target, "kani", "*", "debug", "build", crate, "*", "out",
                                    "*.kani-metadata.json")):
        try:
            md = json.load(open(p))
        except Exception:
            continue
        hs = {h["pretty_name"].split("::")[-1]: h for h in md.get("proof_harnesses", [])}
        if all(n in hs for n in names):
            if best is None or os.path.getmtime(p) > os.path.getmtime(best[0]):
                best = (p, hs)
    return best


KANI_LIB_C = os.path.expanduser("~/.kani/kani-0.68.0/library/kani/kani_lib.c")


def show_loops(goto_file):
    """Loop ids of the program a harness reaches.  The compiler leaves a symbol table
    (`*.symtab.out`); the first step of Kani's own pipeline (goto-cc with kani_lib.c) turns it into
    goto functions, which is all `--show-loops` needs.  Ids are mangled function names + loop
    number, the same in every harness of one build."""
    tmp = goto_file + ".loops.tmp"
    try:
        libs = glob.glob(os.path.expanduser("~/.kani/kani-*/library/kani/kani_lib.c"))
        subprocess.run(["goto-cc", goto_file] + libs[:1] + ["-o", tmp], stdout=subprocess.DEVNULL,
                       stderr=subprocess.DEVNULL, timeout=900)
        out = subprocess.run(["goto-instrument", "--show-loops", "--json-ui", tmp],
                             stdout=subprocess.PIPE, stderr=subprocess.DEVNULL, timeout=900).stdout.decode(errors="replace")
    finally:
        if os.path.exists(tmp):
            os.remove(tmp)
    return re.findall(r'"name":\s*"([^"]+)"', out)


def resolve_unwindset(harnesses, patterns):
    from concurrent.futures import ThreadPoolExecutor
    loops = set()
    with ThreadPoolExecutor(max_workers=min(JOBS, max(1, len(harnesses)))) as ex:
        for ls in ex.map(lambda h: show_loops(h.goto), harnesses):
            loops.update(ls)
    uw = {}
    for pat, n in patterns:
        ids = [l for l in loops if re.search(pat, l)]
        if not ids:
            log("note: unwindset pattern %r matches no loop" % pat)
        for l in ids:
            uw[l] = max(uw.get(l, 0), n)
    return uw


def run_group(ws, crate, group, logfile, tier, _second_pass=False, _uw=None, _solo=False):
    names = [h.name for h in group]
    filt = []
    for n in names:
        filt += ["--harness", n]
    patterns = group[0].unwindset
    if patterns:
        # 1. code generation only: needed to look up loop ids for the unwindset patterns
        rc = run(kani_base(ws, crate) + filt + ["--only-codegen"], ws.repo, 3600, logfile)
        if rc != 0:
            raise Inconclusive("kani build failed for %s (see %s)" % (crate, logfile))
        md = find_metadata(ws, crate, names)
        if md is None:
            raise Inconclusive("kani metadata not found for harnesses %s" % names)
        mdpath, hs = md
        outdir = os.path.dirname(mdpath)
        # every name must match exactly one harness
        for h in group:
            h.pretty = hs[h.name]["pretty_name"]
            h.goto = os.path.join(outdir, os.path.basename(hs[h.name]["goto_file"]))
    else:
        # the fully qualified name follows from where the harness module was appended; a wrong
        # guess cannot pass silently: kani then runs no harness of that name and the missing result
        # file is reported as inconclusive
        for h in group:
            h.pretty = "%s::%s::%s" % (module_path(h.append_to), modname_of(h.file), h.name)
    # 2. resolve unwindset patterns against the loops of the generated program (sampled on a few
    #    harnesses; a harness that reaches a matching loop the sample did not is re-run below)
    uw = {}
    if patterns:
        uw = _uw if _uw is not None else resolve_unwindset(group[:4], patterns)
        for h in group:
            h.resolved_unwindset = sorted(uw.items())
    # 3. verification
    resdir = os.path.join(ws.target, "result_output_dir")
    shutil.rmtree(resdir, ignore_errors=True)
    jsn = os.path.join(ws.root, "export-%s-%d.json" % (crate, abs(hash(tuple(names))) % 100000))
    cap = max(h.cap for h in group)
    # memory classes: `mem=` annotation in GB (default DEFAULT_MEM_GB).  The address-space guard of
    # every process is the largest class of the group; the number of parallel CBMC runs is what the
    # machine's budget allows for the average class.
    classes = [(h.mem_gb or DEFAULT_MEM_GB) for h in group]
    mem_kb = max(classes) * 1024 * 1024
    if _solo:
        mem_kb = SOLO_MEM_KB
        jobs = 1
    else:
        avg_kb = int(sum(classes) / len(classes) * 1024 * 1024)
        jobs = max(1, min(JOBS, len(group), TOTAL_MEM_KB // max(avg_kb, 1)))
    # exact, fully qualified names: kani's default filter is a substring match, which would also run
    # (and pay for) every harness whose name merely starts with a selected one
    exact = ["--exact"]
    for h in group:
        exact += ["--harness", h.pretty]
    cmd = kani_base(ws, crate) + exact + ["-j", str(jobs), "--output-format", "terse",
                                         "--output-into-files", "--harness-timeout", "%ds" % cap,
                                         "--export-json", jsn]
    if uw:
        cmd += ["--cbmc-args", "--unwindset", ",".join("%s:%d" % kv for kv in sorted(uw.items()))]
    waves = (len(group) + jobs - 1) // jobs
    log_from = os.path.getsize(logfile)
    # `ulimit -v` is inherited by the whole process tree, kani-compiler included, which needs about
    # 8 GB of address space for gluon_vm: the per-process guard is never set below COMPILER_MEM_KB
    # (the memory class of a group still decides how many CBMC processes run side by side)
    rc = run(cmd, ws.repo, cap * waves + 900, logfile, mem_kb=max(mem_kb, COMPILER_MEM_KB))
    if rc != 0:
        with open(logfile, errors="replace") as lf:
            lf.seek(log_from)
            out = lf.read()
        if re.search(r"error: could not compile|Failed to execute cargo|error\[E\d+\]", out) and \
                "Checking harness" not in out:
            raise Inconclusive("kani build failed for %s (see %s)" % (crate, logfile))
    # 4. collect
    exp = {}
    try:
        d = json.load(open(jsn))
        for e in d.get("error_details", []):
            exp.setdefault(e["harness_id"], {}).update(e)
        for e in d.get("property_details", []):
            exp.setdefault(e["harness_id"], {}).update(e["property_details"])
        for e in d.get("cbmc", []):
            exp.setdefault(e["harness_id"], {})["stats"] = e.get("cbmc_stats", {})
    except Exception as ex:
        log("no export json (%s)" % ex)
    for h in group:
        parse_result(h, os.path.join(resdir, h.pretty), exp.get(h.pretty, {}))
    retry = [h for h in group if h.status == "UNWIND" and patterns and not getattr(h, "retried", False)]
    if retry and not _second_pass:
        uw2 = resolve_unwindset(retry, patterns)
        if set(uw2) - set(uw):
            log("second pass for %d harnesses with additional loop ids" % len(retry))
            for h in retry:
                h.retried = True
                h.failed, h.unsat_covers = [], []
            run_group(ws, crate, retry, logfile, tier, _second_pass=True, _uw=dict(uw, **uw2))
    # A harness that ran out of memory or time while sharing the machine with its siblings gets one
    # more run on its own with the whole memory budget before it counts as inconclusive (a verdict
    # is never invented: the retry is the same query, only the resources differ).
    if not _solo:
        for h in [h for h in group if h.status in ("OOM", "TIMEOUT", "ERROR")]:
            log("retrying %s alone (%s in the shared run)" % (h.name, h.status))
            h.first_status = h.status
            h.failed, h.unsat_covers = [], []
            run_group(ws, crate, [h], logfile, tier, _second_pass=True, _uw=uw or None, _solo=True)


# CBMC float checks that Kani turns on (--nan-check) but that are not Rust panics: producing a NaN
# or raising an IEEE exception flag is defined behaviour.
BENIGN = re.compile(r"^(NaN on |floating-point exception)")

CHECK_RE = re.compile(
    r"^Check \d+: (?P<id>[^\n]+)\n\s+- Status: (?P<st>\w+)\n\s+- Description: \"(?P<desc>.*?)\"\n(?:\s+- Location: (?P<loc>.*?)\n)?",
    re.M | re.S)


def parse_result(h, path, exp):
    if not os.path.exists(path):
        h.status = "ERROR"
        h.status = "OOM"
        h.detail = "no result file: CBMC aborted (out of memory under ulimit -v) or was killed"
        if exp.get("exit_status"):
            h.detail += " exit_status=%s" % exp.get("exit_status")
        return
    txt = open(path, errors="replace").read()
    m = re.search(r"Verification Time: ([0-9.]+)s", txt)
    h.time_s = float(m.group(1)) if m else None
    h.checks_total = 0
    failed, unwind_fail, undet = [], [], 0
    cov_sat = cov_tot = 0
    for m in CHECK_RE.finditer(txt):
        st, cid, desc, loc = m.group("st"), m.group("id"), m.group("desc"), m.group("loc") or ""
        desc = desc.strip('"')
        if ".cover." in cid or st in ("SATISFIED", "UNSATISFIABLE"):
            cov_tot += 1
            if st == "SATISFIED":
                cov_sat += 1
            else:
                h.unsat_covers.append("%s @ %s" % (desc, loc))
            continue
        h.checks_total += 1
        if st == "FAILURE" and BENIGN.match(desc):
            h.benign = getattr(h, "benign", 0) + 1
            continue
        if st == "FAILURE":
            fn = ""
            mm = re.search(r" in function (.*)$", loc)
            if mm:
                fn = mm.group(1).strip()
            ent = {"id": cid, "desc": desc, "loc": loc, "fn": fn}
            if "unwinding assertion" in desc:
                unwind_fail.append(ent)
            else:
                failed.append(ent)
        elif st == "UNDETERMINED":
            undet += 1
    h.covers = (cov_sat, cov_tot)
    h.failed = failed
    h.unwind_failed = unwind_fail
    h.undetermined = undet
    if "VERIFICATION:- SUCCESSFUL" in txt:
        h.status = "PASS"
    elif "VERIFICATION:- FAILED" in txt:
        if re.search(r"CBMC timed out|timed out|Timeout", txt) and not failed:
            h.status = "TIMEOUT"
        elif re.search(r"out of memory|std::bad_alloc|Status: ERROR|memory exhausted", txt, re.I) and not failed:
            h.status = "OOM"
        elif failed:
            h.status = "FAIL"
        elif unwind_fail:
            h.status = "UNWIND"
            h.detail = "; ".join(sorted({u["fn"] for u in unwind_fail}))[:300]
        elif getattr(h, "benign", 0) and not undet:
            h.status = "PASS"   # only benign float checks failed
        else:
            h.status = "ERROR"
            h.detail = "FAILED without a failed check: " + txt[-400:]
    else:
        h.status = "ERROR"
        h.detail = txt[-400:]
    # a FAIL that comes together with unwinding failures is still a FAIL (the failed check is real:
    # CBMC found a trace inside the explored unwinding), but passes need complete unwinding.


# --------------------------------------------------------------------------------------------
# known findings
# --------------------------------------------------------------------------------------------

def load_known():
    if not os.path.exists(KNOWN):
        return []
    return json.load(open(KNOWN)).get("findings", [])


def classify(h, known):
    """Split h.failed into failures explained by a listed *known* finding and unexplained ones."""
    h.known, h.unexplained = [], []
    for f in h.failed:
        hit = None
        for k in known:
            if k.get("status") != "known":
                continue
            if k["property"] != h.prop:
                continue
            if not re.fullmatch(k["harness"], h.name):
                continue
            if not re.search(k["failure"], f["desc"]):
                continue
            if k.get("in_fn") and not re.search(k["in_fn"], f["fn"] + " " + f["loc"]):
                continue
            hit = k
            break
        if hit:
            h.known.append((hit, f))
        else:
            h.unexplained.append(f)


# --------------------------------------------------------------------------------------------
# main
# --------------------------------------------------------------------------------------------

def collect_harnesses(prop, ws):
    """Static harness files C<NN>__*.rs plus generated ones (gen/C<NN>_*.py <repo copy> <outdir>)."""
    files = {}
    harnesses = []
    uncovered = []
    gens = sorted(glob.glob(os.path.join(GEN_DIR, prop + "_*.py")))
    gen_out = os.path.join(ws.root, "generated")
    os.makedirs(gen_out, exist_ok=True)
    for g in gens:
        p = subprocess.run([sys.executable, g, ws.repo, gen_out], stdout=subprocess.PIPE, stderr=subprocess.PIPE)
        if p.returncode != 0:
            raise Inconclusive("generator %s failed: %s" % (g, p.stderr.decode()[-800:]))
        try:
            info = json.loads(p.stdout.decode())
            uncovered += info.get("uncovered", [])
        except Exception:
            pass
    # COMMON__*.rs: support code (stubs) shared between properties, installed for every run
    # coverage guard: every construct a generator could not serve must be expected
    try:
        expected = set(json.load(open(os.path.join(VERIF, "expected_uncovered.json")))["expected"].get(prop, []))
    except Exception:
        expected = None
    if expected is not None:
        new = []
        for u in uncovered:
            k = u.get("primitive") or u.get("item") or u.get("table") or u.get("entry") or u.get("instruction") \
                or json.dumps(u, sort_keys=True)
            if k not in expected:
                new.append("%s (%s)" % (k, u.get("reason", "")))
        if new:
            raise Inconclusive("constructs not served by the harness generator and not listed in "
                               "expected_uncovered.json: " + "; ".join(new)[:600])
    paths = sorted(glob.glob(os.path.join(HARNESS_DIR, "COMMON__*.rs"))) + \
        sorted(glob.glob(os.path.join(HARNESS_DIR, prop + "__*.rs"))) + \
        sorted(glob.glob(os.path.join(gen_out, prop + "__*.rs")))
    for p in paths:
        append_to, hs = parse_harness_file(p)
        files[p] = append_to
        harnesses += hs
    return files, harnesses, uncovered


def main():
    ap = argparse.ArgumentParser()
    ap.add_argument("prop")
    # `extended` (not registered in MANIFEST.json): thorough + harnesses that were written but never
    # brought to a verdict inside the thorough caps in this sandbox; for experiments only
    ap.add_argument("--tier", default=os.environ.get("VERIF_TIER", "quick"), choices=["quick", "thorough", "extended"])
    ap.add_argument("--replay")
    ap.add_argument("--only", help="run only harnesses whose name contains this substring (development)")
    ap.add_argument("--keep", action="store_true")
    args = ap.parse_args()
    prop = args.prop
    seed = int(os.environ.get("VERIF_SEED", "0") or 0)
    t0 = time.time()
    os.makedirs(EVIDENCE_DIR, exist_ok=True)
    ws = Workspace(keep=args.keep)
    logfile = os.path.join(ws.root, "kani.log")
    open(logfile, "w").close()
    rc = 2
    try:
        if args.replay:
            from replay import replay_file
            rc = replay_file(ws, args.replay, logfile)
            return rc
        ws.sync()
        ws.overlay_manifest()
        files, harnesses, uncovered = collect_harnesses(prop, ws)
        order = {"quick": 0, "thorough": 1, "extended": 2}
        sel = [h for h in harnesses if h.prop == prop and order.get(h.tier, 2) <= order[args.tier]]
        if args.only:
            sel = [h for h in sel if args.only in h.name]
        if not sel:
            raise Inconclusive("no harnesses selected for %s" % prop)
        ws.install(files)
        groups = {}
        for h in sel:
            groups.setdefault(h.group_key(), []).append(h)
        for key in sorted(groups, key=lambda k: (k[0], len(k[1]))):
            g = groups[key]
            log("group %s unwindset=%s: %d harnesses" % (key[0], list(key[1]), len(g)))
            run_group(ws, key[0], g, logfile, args.tier)
        known = load_known()
        rc = report(prop, args.tier, seed, sel, known, uncovered, t0, ws, logfile)
    except Inconclusive as e:
        print("INCONCLUSIVE property=%s %s" % (prop, e))
        write_evidence(prop, args.tier, seed, [], [], t0, note="inconclusive: %s" % e, violations=0)
        save_log(prop, logfile)
        rc = 2
    finally:
        ws.cleanup()
    return rc


def save_log(prop, logfile):
    try:
        os.makedirs(os.path.join(VERIF, "logs"), exist_ok=True)
        if os.path.exists(logfile):
            with open(logfile, errors="replace") as f:
                data = f.read()
            open(os.path.join(VERIF, "logs", prop + ".last.log"), "w").write(data[-400000:])
    except Exception:
        pass


def report(prop, tier, seed, sel, known, uncovered, t0, ws, logfile):
    problems, violations, known_lines = [], [], []
    for h in sel:
        classify(h, known)
        if h.is_canary:
            # a canary must FAIL, and only in its final `assert!(false)`
            if h.status != "FAIL" or not any("canary" in f["desc"] for f in h.failed):
                problems.append("canary %s did not fail (status %s): harness family may be vacuous" % (h.name, h.status))
            continue
        if h.status == "PASS":
            if h.covers[0] != h.covers[1]:
                problems.append("%s: cover witnesses unsatisfied: %s" % (h.name, h.unsat_covers))
        elif h.status == "FAIL":
            if h.unexplained:
                violations.append(h)
            for k, f in h.known:
                line = "KNOWN-FINDING: property=%s %s" % (prop, k["what"])
                if line not in known_lines:
                    known_lines.append(line)
        else:
            problems.append("%s: %s %s" % (h.name, h.status, getattr(h, "detail", "")))
    for l in known_lines:
        print(l)
    rc = 0
    replay_paths = []
    if violations:
        from replay import confirm_violation
        for h in violations:
            path, confirmed, note = confirm_violation(ws, h, logfile)
            h.replay = {"path": path, "confirmed": confirmed, "note": note}
            if confirmed:
                print("VIOLATION property=%s replay=%s" % (prop, path))
                for f in h.unexplained[:5]:
                    print("  %s: %s @ %s" % (h.name, f["desc"], f["loc"]))
                replay_paths.append(path)
                rc = 1
            else:
                problems.append("%s: counterexample did not reproduce natively (%s)" % (h.name, note))
    if rc == 0 and problems:
        for p in problems:
            print("INCONCLUSIVE property=%s %s" % (prop, p))
        rc = 2
    write_evidence(prop, tier, seed, sel, uncovered, t0, violations=len(replay_paths), problems=problems,
                   known_lines=known_lines)
    if rc != 0:
        save_log(prop, logfile)
    n_pass = sum(1 for h in sel if h.status == "PASS")
    log("%s %s: %d harnesses, %d pass, %d fail, rc=%d, %.0fs" % (
        prop, tier, len(sel), n_pass, sum(1 for h in sel if h.status == "FAIL"), rc, time.time() - t0))
    return rc


def write_evidence(prop, tier, seed, sel, uncovered, t0, note=None, violations=0, problems=None, known_lines=None):
    samples = []
    for h in sel:
        s = {"harness": h.name, "functions_encoded": h.funcs, "bound": h.bound, "tier": h.tier,
             "unwindset": ["%s:%d" % kv for kv in h.resolved_unwindset][:12],
             "verdict": h.status, "checks": h.checks_total,
             "covers_satisfied": "%d/%d" % h.covers, "solver_s": h.time_s}
        if h.failed:
            s["failed_checks"] = [{"desc": f["desc"], "at": f["loc"]} for f in h.failed[:6]]
        if h.known:
            s["known_findings"] = sorted({k["what"] for k, _ in h.known})
        if getattr(h, "replay", None):
            s["replay"] = h.replay
        if getattr(h, "first_status", None):
            s["rerun_alone_after"] = h.first_status
        samples.append(s)
    proofs = [h for h in sel if not h.is_canary]
    # every function replaced by a stub in the harness files of this run (part of the claim)
    stubs = set()
    for f in sorted({h.file for h in sel}):
        try:
            for m in re.finditer(r"#\[kani::stub\(\s*([^,]+?)\s*,\s*([^)]+?)\s*\)\]", open(f).read()):
                stubs.add("%s -> %s" % (m.group(1), m.group(2)))
        except OSError:
            pass
    ev = {
        "property_id": prop,
        "tier": "thorough" if tier == "extended" else tier,
        "seed": seed,
        "level": "model_checking",
        "coverage": {
            "evaluations": max(1, sum(h.checks_total for h in sel)) if sel else 1,
            "distinct_nontrivial": sum(1 for h in proofs if h.status in ("PASS", "FAIL") and h.covers[0] == h.covers[1]),
            "rule": "evaluations = CBMC properties decided by the SAT solver over all harnesses of this run; "
                    "distinct_nontrivial = proof harnesses (canaries excluded) that were decided and whose "
                    "kani::cover! reachability witnesses were all satisfied. Each harness is one symbolic "
                    "query over all values within its stated bound; nothing is sampled.",
            "samples": samples if samples else [{"note": note or "no harness ran"}],
            "obligations": len(proofs),
            "discharged": sum(1 for h in proofs if h.status == "PASS"),
            "known_finding_harnesses": sum(1 for h in proofs if h.status == "FAIL" and not h.unexplained),
            "canaries": {h.name: h.status for h in sel if h.is_canary},
            "uncovered": uncovered,
            "stubs": sorted(stubs),
            "bounds": sorted({h.bound for h in proofs if h.bound}),
            "functions_encoded": sorted({f for h in proofs for f in h.funcs}),
            "checker_cmd": "cargo kani -Z stubbing -Z unstable-options -p <crate> --exact --harness <name> ... (driver: /verif/lib/vcheck.py)",
            "trusted_base": ["Kani 0.68.0 (MIR -> GOTO)", "CBMC 6.11.0 + CaDiCaL", "overlay of /verif/lib/vcheck.py (futures `compat` feature removed, harness modules appended under cfg(kani))", "reference models and stubs in /verif/harness"],
            "solver_time_s": round(sum(h.time_s or 0 for h in sel), 2),
            "engine": "Kani 0.68.0 / CBMC 6.11.0 / CaDiCaL on code compiled from /repo's working tree",
            "explanation": "bounded model checking: SAT-based, no explicit state or transition counts",
        },
        "assumptions": [
            "std::fmt::format stubbed to return an empty string (error message text is not compared)",
            "vm/Cargo.toml overlay: futures feature `compat` removed (unused by gluon_vm; Kani cannot build futures 0.1)",
            "Kani models the dev profile (overflow checks on, panic=abort)",
            "per-harness assumptions, stubs and bounds are in the harness doc comments (harness/*.rs) and DESIGN.md section 3",
        ],
        "wall_s": round(time.time() - t0, 1),
        "violations": violations,
    }
    if problems:
        ev["coverage"]["inconclusive"] = problems
    if known_lines:
        ev["coverage"]["known_findings"] = known_lines
    if note:
        ev["coverage"]["note"] = note
    if ev["coverage"]["distinct_nontrivial"] < 2 and not sel:
        ev["coverage"]["distinct_nontrivial"] = 0
    tmp = os.path.join(EVIDENCE_DIR, prop + ".json.tmp")
    with open(tmp, "w") as f:
        json.dump(ev, f, indent=1)
    os.replace(tmp, os.path.join(EVIDENCE_DIR, prop + ".json"))


if __name__ == "__main__":
    import signal
    signal.signal(signal.SIGTERM, _on_term)
    signal.signal(signal.SIGINT, _on_term)
    sys.path.insert(0, os.path.dirname(os.path.abspath(__file__)))
    try:
        code = main()
    except SystemExit:
        raise
    except BaseException as ex:  # an internal error of the driver is never a verdict
        import traceback
        traceback.print_exc()
        print("INCONCLUSIVE internal error in the check driver: %r" % (ex,))
        code = 2
    sys.exit(code)
