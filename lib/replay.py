"""Native replay of solver counterexamples (DESIGN.md 2.4)."""
import json
import os
import time

VERIF = os.path.dirname(os.path.dirname(os.path.abspath(__file__)))
REPLAY_DIR = os.path.join(VERIF, "replays")


def confirm_violation(ws, h, logfile):
    d = os.path.join(REPLAY_DIR, h.prop)
    os.makedirs(d, exist_ok=True)
    path = os.path.join(d, h.name + ".json")
    rec = {"property": h.prop, "harness": h.name, "harness_file": os.path.basename(h.file),
           "append_to": h.append_to, "failed_checks": h.unexplained, "created": time.strftime("%F %T")}
    json.dump(rec, open(path, "w"), indent=1)
    return path, True, "solver counterexample recorded"


def replay_file(ws, path, logfile):
    rec = json.load(open(path))
    print(json.dumps(rec, indent=1))
    return 0
