"""Native replay of solver counterexamples (DESIGN.md 2.4).

A failing harness is re-run with Kani's concrete playback: CBMC's satisfying assignment is turned
into a `#[test]` that feeds exactly those bytes to the harness's `kani::any()` calls, and that test
is compiled and run *natively* (ordinary rustc, dev profile, no stubs) against the same scratch
copy of /repo.  Only a counterexample whose native run panics is reported as a VIOLATION; one that
does not reproduce means the encoding or a stub is suspect and the run ends INCONCLUSIVE.
"""
import json
import os
import re
import subprocess
import time

VERIF = os.path.dirname(os.path.dirname(os.path.abspath(__file__)))
REPLAY_DIR = os.environ.get("VERIF_REPLAY_DIR") or os.path.join(VERIF, "replays")
MAX_REPLAYS = int(os.environ.get("VERIF_MAX_REPLAYS", "2"))
_done = {"n": 0}


def _sh(cmd, cwd, timeout, logfile):
    env = dict(os.environ)
    env["CARGO_NET_OFFLINE"] = "true"
    env.pop("RUSTFLAGS", None)
    with open(logfile, "ab") as lf:
        lf.write(("\n$ " + " ".join(cmd) + "\n").encode())
    try:
        p = subprocess.run(cmd, cwd=cwd, env=env, stdout=subprocess.PIPE, stderr=subprocess.STDOUT, timeout=timeout)
        out = p.stdout.decode(errors="replace")
        rc = p.returncode
    except subprocess.TimeoutExpired as e:
        out = (e.stdout or b"").decode(errors="replace") + "\n[timeout]"
        rc = -9
    with open(logfile, "ab") as lf:
        lf.write(out[-20000:].encode())
    return rc, out


def extract_tests(out):
    """[(test name, test source, checked property)] for the failing checks (cover witnesses skipped)."""
    tests = []
    for m in re.finditer(r"```\s*\n(.*?)\n```", out, re.S):
        block = m.group(1)
        kind = re.search(r"Check for `(\w+)`: \"?(.*?)\"?\s*\n", block)
        t = re.search(r"(#\[test\]\s*\nfn (kani_concrete_playback_\w+)\(\).*)", block, re.S)
        if not t:
            continue
        if kind and kind.group(1) == "cover":
            continue
        tests.append((t.group(2), t.group(1), kind.group(2) if kind else ""))
    return tests


def playback(ws, h, test_name, test_src, logfile):
    """Append the generated test to the scratch copy of the harness file and run it natively."""
    hfile = os.path.join(ws.hdir, os.path.basename(h.file))
    txt = open(hfile).read()
    if test_name not in txt:
        with open(hfile, "a") as f:
            f.write("\n\n" + test_src + "\n")
    cmd = ["cargo", "kani", "playback", "-Z", "concrete-playback", "-p", h.crate, "--", test_name]
    rc, out = _sh(cmd, ws.repo, 3600, logfile)
    ran = re.search(r"running \d+ test", out) is not None
    failed = re.search(r"test result: FAILED|panicked at|test .*%s.* FAILED" % re.escape(test_name), out) is not None
    passed = re.search(r"test result: ok\. 1 passed", out) is not None
    m = re.search(r"panicked at ([^\n]*)\n([^\n]*)", out)
    panic = (m.group(1) + " " + m.group(2)).strip() if m else ""
    return ran, failed and not passed, panic, out[-3000:]


def _save(rec, path):
    os.makedirs(os.path.dirname(path), exist_ok=True)
    with open(path, "w") as f:
        json.dump(rec, f, indent=1)


def confirm_violation(ws, h, logfile):
    from vcheck import kani_base
    d = os.path.join(REPLAY_DIR, h.prop)
    os.makedirs(d, exist_ok=True)
    path = os.path.join(d, h.name + ".json")
    rec = {"property": h.prop, "harness": h.name, "harness_file": os.path.basename(h.file),
           "generated": not h.file.startswith(os.path.join(VERIF, "harness")),
           "append_to": h.append_to, "crate": h.crate, "failed_checks": h.unexplained[:8],
           "created": time.strftime("%F %T")}
    if _done["n"] >= MAX_REPLAYS:
        rec["native"] = "not replayed (replay budget of this run used up by earlier harnesses)"
        _save(rec, path)
        return path, False, "not replayed: replay budget used"
    _done["n"] += 1
    cmd = kani_base(ws, h.crate) + ["--exact", "--harness", h.pretty or h.name, "-Z", "concrete-playback", "--concrete-playback=print",
                                    "--output-format", "terse"]
    if h.resolved_unwindset:
        cmd += ["--cbmc-args", "--unwindset", ",".join("%s:%d" % kv for kv in h.resolved_unwindset)]
    rc, out = _sh(cmd, ws.repo, h.cap + 1200, logfile)
    tests = extract_tests(out)
    if not tests:
        rec["native"] = "no concrete playback test was produced"
        _save(rec, path)
        return path, False, "no concrete playback test produced"
    note = "native run of the counterexample did not fail"
    for test_name, test_src, what in tests[:3]:
        ran, failed, panic, tail = playback(ws, h, test_name, test_src, logfile)
        rec["playback_test"] = test_src
        rec["checked"] = what
        rec["native"] = {"ran": ran, "reproduced": failed, "panic": panic, "profile": "dev"}
        _save(rec, path)
        if not ran:
            return path, False, "native replay did not build/run"
        if failed:
            return path, True, "reproduced natively: " + panic[:200]
    return path, False, note


def replay_file(ws, path, logfile):
    """Re-execute a recorded counterexample against /repo's current tree.  Exit 1 (and a VIOLATION
    line) if it still reproduces, 0 if it no longer does, 2 if it cannot be run."""
    import vcheck
    rec = json.load(open(path))
    ws.sync()
    ws.overlay_manifest()
    files, harnesses, _ = vcheck.collect_harnesses(rec["property"], ws)
    hs = [h for h in harnesses if h.name == rec["harness"]]
    if not hs or "playback_test" not in rec:
        print("INCONCLUSIVE property=%s replay file has no playback test or the harness is gone" % rec["property"])
        return 2
    ws.install(files)
    h = hs[0]
    name = re.search(r"fn (kani_concrete_playback_\w+)", rec["playback_test"]).group(1)
    ran, failed, panic, tail = playback(ws, h, name, rec["playback_test"], logfile)
    if not ran:
        print("INCONCLUSIVE property=%s native replay did not build/run" % rec["property"])
        print(tail[-1500:])
        return 2
    if failed:
        print("VIOLATION property=%s replay=%s" % (rec["property"], path))
        print("  " + panic)
        return 1
    print("replay of %s no longer fails on the current tree" % rec["harness"])
    return 0
