//@@ append-to: vm/src/gc.rs
//! C07: memory accounted to a collector never exceeds its limit.  One `alloc` from an arbitrary
//! accounting state (inductive step): whatever `allocated_memory <= memory_limit` the heap is in,
//! a successful allocation keeps it so, a refused one changes nothing and reports `OutOfMemory`.
//! Stub: `Gc::get_type_info` (interning cache).
#![allow(unused_imports, dead_code, non_snake_case, unused_unsafe, unused_variables, unused_mut)]
use super::*;
use crate::real_std as rstd;
use rstd::mem::ManuallyDrop;

fn fmt_stub(_: rstd::fmt::Arguments<'_>) -> String {
    String::new()
}

fn type_info_stub(
    gc: &mut Gc,
    _tag: Option<&InternedStr>,
    _fields: Option<&[InternedStr]>,
    _type_id: TypeId,
    drop: unsafe fn(*mut ()),
) -> *const TypeInfo {
    let b: &'static mut ManuallyDrop<TypeInfo> = Box::leak(Box::new(ManuallyDrop::new(TypeInfo {
        drop,
        generation: gc.generation,
        tag: None,
        fields: FnvMap::default(),
        fields_key: Arc::from(Vec::new()),
    })));
    &**b as *const TypeInfo
}

/// payload of N machine words
struct Words<const N: usize>([u64; N]);
unsafe impl<const N: usize> Trace for Words<N> {}

/// payload of three bytes: a block whose size is not a multiple of the word size
struct Odd([u8; 3]);
unsafe impl Trace for Odd {}

fn alloc_step<const N: usize>(canary: bool) {
    alloc_step_with(Move(Words::<N>([7; N])), 8 * N, canary)
}

fn alloc_step_with<D>(def: D, payload: usize, canary: bool)
where
    D: DataDef,
    D::Value: Sized + Any,
{
    let mut gc = ManuallyDrop::new(Gc::new(Generation::default(), usize::MAX));
    let allocated: usize = kani::any();
    let limit: usize = kani::any();
    // representation invariant: accounted bytes are live heap bytes, and within the limit
    kani::assume(allocated <= isize::MAX as usize);
    kani::assume(allocated <= limit);
    gc.allocated_memory = allocated;
    gc.memory_limit = limit;
    let r = ManuallyDrop::new(gc.alloc_owned(def).map(|_p| ()));
    match &*r {
        Ok(_) => {
            assert!(gc.allocated_memory > allocated, "an allocation is accounted");
            assert!(gc.allocated_memory - allocated >= payload, "at least the payload is accounted");
            assert!(gc.allocated_memory <= gc.memory_limit, "accounted memory never exceeds the limit");
            assert!(gc.values.is_some(), "object linked into the heap list");
            // what `alloc` adds is exactly what `free` will subtract for this block (`AllocPtr::size`
            // of the new list head): otherwise accounting drifts and never returns to its baseline
            let block = gc.values.as_ref().map(|p| p.size());
            assert!(block == Some(gc.allocated_memory - allocated), "alloc accounts exactly the block `free` releases");
            kani::cover!(true, "allocation admitted");
        }
        Err(Error::OutOfMemory { limit: l, needed }) => {
            assert!(*l == limit);
            assert!(*needed >= limit, "refused only when the limit would be reached");
            assert!(gc.allocated_memory == allocated, "a refused allocation changes nothing");
            assert!(gc.values.is_none());
            kani::cover!(true, "allocation refused");
        }
        Err(_) => assert!(false, "the only allocation failure is OutOfMemory"),
    }
    assert!(gc.memory_limit == limit);
    if canary {
        assert!(false, "canary");
    }
}

//@ tier=quick cap=900 funcs=Gc::alloc_owned,Gc::alloc_ignore_limit_,AllocPtr::new,AllocPtr::size,GcHeader::value_offset bound=payload_8_bytes;any_usize_allocated_le_limit
#[kani::proof]
#[kani::unwind(4)]
#[kani::stub(rstd::fmt::format, fmt_stub)]
#[kani::stub(Gc::get_type_info, type_info_stub)]
fn c07_alloc_limit_8() {
    alloc_step::<1>(false);
}

//@ tier=quick cap=900 funcs=Gc::alloc_owned,Gc::alloc_ignore_limit_,AllocPtr::new bound=payload_0_bytes;any_usize_allocated_le_limit
#[kani::proof]
#[kani::unwind(4)]
#[kani::stub(rstd::fmt::format, fmt_stub)]
#[kani::stub(Gc::get_type_info, type_info_stub)]
fn c07_alloc_limit_0() {
    alloc_step::<0>(false);
}

//@ tier=quick cap=900 funcs=Gc::alloc_owned,Gc::alloc_ignore_limit_,AllocPtr::new,AllocPtr::size bound=payload_3_bytes_(not_a_multiple_of_the_word_size);any_usize_allocated_le_limit
#[kani::proof]
#[kani::unwind(5)]
#[kani::stub(rstd::fmt::format, fmt_stub)]
#[kani::stub(Gc::get_type_info, type_info_stub)]
fn c07_alloc_limit_3() {
    alloc_step_with(Move(Odd([7; 3])), 3, false);
}

// (a 40-byte payload was tried as a thorough-tier harness: no verdict in 30 min -- the payload
// copy loop and the word-wise initialisation multiply with the allocator model; sizes 0, 3 and 8
// exercise the same accounting arithmetic.)

//@ tier=quick cap=900
#[kani::proof]
#[kani::unwind(4)]
#[kani::stub(rstd::fmt::format, fmt_stub)]
#[kani::stub(Gc::get_type_info, type_info_stub)]
fn c07_alloc_limit_canary() {
    alloc_step::<1>(true);
}

/// `new_child_gc` hands the parent's limit to the child heap.
//@ tier=quick cap=300 funcs=Gc::new_child_gc,Gc::set_memory_limit bound=any_limit;any_generation_below_max
#[kani::proof]
#[kani::unwind(4)]
#[kani::stub(rstd::fmt::format, fmt_stub)]
fn c07_child_gc_limit() {
    let limit: usize = kani::any();
    let g: i32 = kani::any();
    kani::assume(g >= 0 && g < i32::MAX);
    let mut parent = ManuallyDrop::new(Gc::new(Generation(g), 0));
    parent.set_memory_limit(limit);
    let child = ManuallyDrop::new(parent.new_child_gc());
    assert!(child.memory_limit == limit && child.allocated_memory == 0);
    assert!(child.generation.0 == g + 1);
    kani::cover!(true);
}
