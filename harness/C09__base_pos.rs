//@@ append-to: base/src/pos.rs
//! C09 support: the position arithmetic every reported span goes through (`Location::shift`,
//! `Span::{new, contains, containment, containment_exclusive, to, ...}`), for all u32 positions.
#![allow(unused_imports, dead_code, non_snake_case, unused_unsafe, unused_variables, unused_mut)]
use super::*;

//@ tier=quick cap=300 funcs=Span::new,Span::contains,Span::contains_pos,Span::containment,Span::containment_exclusive,Span::to bound=all_u32_positions
#[kani::proof]
fn c09_pos_span() {
    let (a, b, c, d): (u32, u32, u32, u32) = (kani::any(), kani::any(), kani::any(), kani::any());
    let s = Span::new(BytePos(a), BytePos(b));
    // `new` orders its ends
    assert!(s.start() <= s.end());
    assert!(s.start() == BytePos(a.min(b)) && s.end() == BytePos(a.max(b)));
    let t = Span::new(BytePos(c), BytePos(d));
    // containment relations are consistent with the ordering of the ends
    assert!(s.contains(t) == (s.start() <= t.start() && t.end() <= s.end()));
    let p = BytePos(c);
    assert!(s.contains_pos(p) == (s.start() <= p && p <= s.end()));
    use std::cmp::Ordering::*;
    match s.containment(p) {
        Less => assert!(p < s.start()),
        Equal => assert!(s.start() <= p && p <= s.end()),
        Greater => assert!(p > s.end()),
    }
    match s.containment_exclusive(p) {
        // documented: the end itself is outside (`Greater`), the start inside
        Less => assert!(p < s.start()),
        Equal => assert!(s.start() <= p && p < s.end()),
        Greater => assert!(p >= s.end()),
    }
    // joining two spans covers both
    let j = s.to(t);
    assert!(j.start() <= j.end());
    assert!(j.start() == s.start().min(t.start()) && j.end() == s.end().max(t.end()));
    kani::cover!(s.contains(t));
    kani::cover!(!s.contains(t));
}

//@ tier=quick cap=300 funcs=Location::shift bound=any_location_below_u32_max;any_byte
#[kani::proof]
fn c09_pos_shift() {
    let (l, c, a): (u32, u32, u32) = (kani::any(), kani::any(), kani::any());
    kani::assume(l < u32::MAX && c < u32::MAX && a < u32::MAX);
    let mut loc = Location { line: Line(l), column: Column(c), absolute: BytePos(a) };
    let ch: u8 = kani::any();
    loc.shift(ch);
    assert!(loc.absolute == BytePos(a + 1), "one byte forward");
    if ch == b'\n' {
        assert!(loc.line == Line(l + 1) && loc.column == Column(1));
    } else {
        assert!(loc.line == Line(l) && loc.column == Column(c + 1));
    }
    kani::cover!(ch == b'\n');
}

//@ tier=quick cap=300
#[kani::proof]
fn c09_pos_canary() {
    let (a, b): (u32, u32) = (kani::any(), kani::any());
    let s = Span::new(BytePos(a), BytePos(b));
    assert!(s.start() <= s.end());
    assert!(false, "canary");
}
