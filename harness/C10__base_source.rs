//@@ append-to: base/src/source.rs
//! C10 kernel: `CommentIter::{next, next_back}` -- the only code that recovers comments from the
//! source text between two AST nodes (`Source::comments_between`), on which the formatter's
//! "same comments in the same order" rests.
//!
//! One step from an arbitrary gap text: never panics, and the item it returns together with the
//! text it leaves behind partition the input as  rest + blanks + item + blanks  (backwards) or
//! blanks + item + blanks + rest (forwards): the step never swallows a byte that is not blank and
//! never skips over a comment.  Fixed-layout inputs: every string of the stated length over the
//! alphabet {'/', '*', '\n', '\r', ' ', 'a'}.
#![allow(unused_imports, dead_code, non_snake_case, unused_unsafe, unused_variables, unused_mut)]
use super::*;

const ALPHABET: [u8; 6] = [b'/', b'*', b'\n', b'\r', b' ', b'a'];

fn sym_byte() -> u8 {
    let k: u8 = kani::any();
    kani::assume(k < 6);
    match k {
        0 => b'/',
        1 => b'*',
        2 => b'\n',
        3 => b'\r',
        4 => b' ',
        _ => b'a',
    }
}

fn is_blank(b: u8) -> bool {
    b == b' ' || b == b'\n' || b == b'\r'
}

/// byte offset of `sub` inside `whole` (both views of the same buffer)
fn offset_in(whole: &str, sub: &str) -> usize {
    sub.as_ptr() as usize - whole.as_ptr() as usize
}

fn all_blank(bytes: &[u8], from: usize, to: usize) -> bool {
    // straight-line over at most 6 positions
    let chk = |i: usize| i < from || i >= to || i >= bytes.len() || is_blank(bytes[i]);
    chk(0) && chk(1) && chk(2) && chk(3) && chk(4) && chk(5)
}

/// number of line feeds in bytes[from..to] (straight-line over at most 6 positions)
fn count_nl(bytes: &[u8], from: usize, to: usize) -> usize {
    let c = |i: usize| (i >= from && i < to && i < bytes.len() && bytes[i] == b'\n') as usize;
    c(0) + c(1) + c(2) + c(3) + c(4) + c(5)
}

/// a recovered comment is a whole comment: a line comment runs to the end of its line (and not
/// beyond), a block comment to its terminator
fn whole_comment(bytes: &[u8], at: usize, c: &str) -> bool {
    let end = at + c.len();
    let cb = c.as_bytes();
    // straight-line: c has at most 6 bytes here
    let has_nl = (cb.len() > 0 && cb[0] == b'\n') || (cb.len() > 1 && cb[1] == b'\n') || (cb.len() > 2 && cb[2] == b'\n')
        || (cb.len() > 3 && cb[3] == b'\n') || (cb.len() > 4 && cb[4] == b'\n') || (cb.len() > 5 && cb[5] == b'\n');
    if c.starts_with("//") {
        // ends at a line end, or only trailing blanks of the whole text follow (they are trimmed)
        let sp = |i: usize| i < end || i >= bytes.len() || bytes[i] == b' ' || bytes[i] == b'\r';
        let at_eol = end == bytes.len()
            || bytes[end] == b'\n'
            || (bytes[end] == b'\r' && end + 1 < bytes.len() && bytes[end + 1] == b'\n')
            || (sp(0) && sp(1) && sp(2) && sp(3) && sp(4) && sp(5));
        !has_nl && at_eol
    } else {
        c.len() >= 3 && cb[cb.len() - 2] == b'*' && cb[cb.len() - 1] == b'/'
    }
}

fn back_step(input: &'static str) -> u8 {
    let bytes = input.as_bytes();
    let mut it = CommentIter { src: input };
    let item = it.next_back();
    let rest = it.src;
    let code: u8 = match item { None => 0, Some(c) if c.is_empty() => 1, Some(_) => 2 };
    // the remaining text is a prefix of the input
    assert!(offset_in(input, rest) == 0 || rest.is_empty(), "rest is a prefix");
    assert!(rest.len() <= input.len());
    match item {
        Some(c) if !c.is_empty() => {
            let at = offset_in(input, c);
            assert!(at >= rest.len() && at + c.len() <= input.len(), "item lies after the rest");
            // nothing but blanks is dropped between rest | item | end
            assert!(all_blank(bytes, rest.len(), at), "only blanks between rest and item");
            assert!(all_blank(bytes, at + c.len(), input.len()), "only blanks after the item");
            assert!(c.starts_with("//") || c.starts_with("/*"), "a non-empty item is a comment");
            assert!(whole_comment(bytes, at, c), "the item is one whole comment");
            // line accounting: an empty item stands for one line end that is NOT the end of a
            // comment line.  A line comment takes exactly its own line end with it, a block
            // comment none; otherwise the formatter would invent or lose blank lines.
            assert!(count_nl(bytes, rest.len(), at) == 0, "no line end is consumed before the item");
            let own = if c.starts_with("//") { 1 } else { 0 };
            assert!(count_nl(bytes, at + c.len(), input.len()) == own, "a line comment takes exactly its own line end");
        }
        Some(_) => {
            // an empty item stands for one line end; at most blanks are consumed
            assert!(all_blank(bytes, rest.len(), input.len()), "an empty item consumes blanks only");
            assert!(rest.len() < input.len(), "progress");
            assert!(count_nl(bytes, rest.len(), input.len()) == 1, "an empty item is exactly one line end");
        }
        None => {
            assert!(all_blank(bytes, rest.len(), input.len()), "None consumes blanks only");
            assert!(count_nl(bytes, rest.len(), input.len()) == 0, "None consumes no line end");
        }
    }
    code
}

fn fwd_step(input: &'static str) -> u8 {
    let bytes = input.as_bytes();
    let mut it = CommentIter { src: input };
    let item = it.next();
    let rest = it.src;
    let code: u8 = match item { None => 0, Some(c) if c.is_empty() => 1, Some(_) => 2 };
    assert!(rest.len() <= input.len());
    // `rest` is always a sub-slice of the input (the iterator only ever re-slices its `src`)
    let rest_at = offset_in(input, rest);
    assert!(rest_at + rest.len() <= input.len(), "rest lies inside the input");
    assert!(all_blank(bytes, rest_at + rest.len(), input.len()), "rest is a suffix, modulo trailing blanks");
    match item {
        Some(c) if !c.is_empty() => {
            let at = offset_in(input, c);
            assert!(at + c.len() <= rest_at, "item lies before the rest");
            assert!(all_blank(bytes, 0, at), "only blanks before the item");
            assert!(all_blank(bytes, at + c.len(), rest_at), "only blanks between item and rest");
            assert!(c.starts_with("//") || c.starts_with("/*"), "a non-empty item is a comment");
            assert!(whole_comment(bytes, at, c), "the item is one whole comment");
            let end = at + c.len();
            assert!(count_nl(bytes, 0, at) == 0, "no line end is consumed before the item");
            // a line comment takes the line end that terminates it (LF or CRLF) with it, so that
            // this line end is not reported as a blank line by the next step
            let own = if !c.starts_with("//") {
                0
            } else if end < bytes.len() && bytes[end] == b'\n' {
                1
            } else if end + 1 < bytes.len() && bytes[end] == b'\r' && bytes[end + 1] == b'\n' {
                2
            } else {
                0
            };
            assert!(count_nl(bytes, end, rest_at) == (own > 0) as usize, "a line comment takes exactly its own line end");
            assert!(own == 0 || rest_at == end + own, "the rest starts right after the comment's line end");
        }
        Some(_) => {
            assert!(all_blank(bytes, 0, rest_at), "blank line");
            assert!(count_nl(bytes, 0, rest_at) == 1, "an empty item is exactly one line end");
        }
        None => {
            assert!(all_blank(bytes, 0, rest_at), "None consumes blanks only");
            assert!(count_nl(bytes, 0, rest_at) == 0, "None consumes no line end");
        }
    }
    code
}

macro_rules! gap {
    ($($b: ident),*) => {{
        let buf: &'static mut [u8] = Box::leak(Box::new([$({ let $b = sym_byte(); $b }),*]));
        let s: &'static str = unsafe { std::str::from_utf8_unchecked(buf) };
        s
    }};
}

//@ tier=quick cap=900 funcs=CommentIter::next_back bound=every_string_of_length_2_over_6_letter_alphabet
#[kani::proof]
#[kani::unwind(4)]
fn c10_back_len2() {
    let code = back_step(gap!(a, b));
    kani::cover!(code == 1, "blank line reported");
    kani::cover!(code == 0, "stopped at code");
}

//@ tier=quick cap=1200 funcs=CommentIter::next_back bound=every_string_of_length_3_over_6_letter_alphabet
#[kani::proof]
#[kani::unwind(5)]
fn c10_back_len3() {
    let code = back_step(gap!(a, b, c));
    kani::cover!(code == 2, "comment recovered");
    kani::cover!(code == 1, "blank line reported");
}

//@ tier=thorough cap=3000 mem=14 funcs=CommentIter::next_back bound=every_string_of_length_4_over_6_letter_alphabet
#[kani::proof]
#[kani::unwind(6)]
fn c10_back_len4() {
    let code = back_step(gap!(a, b, c, d));
    kani::cover!(code == 2, "comment recovered");
}

//@ tier=quick cap=900 funcs=CommentIter::next bound=every_string_of_length_2_over_6_letter_alphabet
#[kani::proof]
#[kani::unwind(4)]
fn c10_fwd_len2() {
    let code = fwd_step(gap!(a, b));
    kani::cover!(code == 2, "comment recovered");
    kani::cover!(code == 1, "blank line reported");
    kani::cover!(code == 0, "stopped");
}

//@ tier=quick cap=1200 funcs=CommentIter::next bound=every_string_of_length_3_over_6_letter_alphabet
#[kani::proof]
#[kani::unwind(5)]
fn c10_fwd_len3() {
    let code = fwd_step(gap!(a, b, c));
    kani::cover!(code == 2, "comment recovered");
}

//@ tier=quick cap=1500 mem=14 funcs=CommentIter::next bound=every_string_of_length_4_over_6_letter_alphabet
#[kani::proof]
#[kani::unwind(6)]
fn c10_fwd_len4() {
    let code = fwd_step(gap!(a, b, c, d));
    kani::cover!(code == 2, "comment recovered");
}

/// fixed layouts around a CRLF-terminated line comment (the shortest one is 4 bytes, beyond the
/// all-strings harnesses of the quick tier in the backward direction): x // y CR LF z
macro_rules! crlf {
    ($x: expr, $y: expr, $z: expr) => {{
        let buf: &'static mut [u8] = Box::leak(Box::new([$x, b'/', b'/', $y, b'\r', b'\n', $z]));
        // blanks chosen for x/z keep the text inside the 6 positions the straight-line helpers see
        let s: &'static str = unsafe { std::str::from_utf8_unchecked(&buf[..6]) };
        s
    }};
}
fn blank_or_a() -> u8 {
    let k: u8 = kani::any();
    kani::assume(k < 3);
    match k {
        0 => b' ',
        1 => b'\n',
        _ => b'a',
    }
}

//@ tier=quick cap=1200 mem=14 funcs=CommentIter::next bound=x_slash_slash_y_CR_LF;x_in_space_newline_a;y_any_of_6_letters
#[kani::proof]
#[kani::unwind(8)]
fn c10_fwd_crlf() {
    let code = fwd_step(crlf!(blank_or_a(), sym_byte(), b' '));
    kani::cover!(code == 2, "comment recovered");
}

//@ tier=quick cap=1200 mem=14 funcs=CommentIter::next_back bound=x_slash_slash_y_CR_LF;x_in_space_newline_a;y_any_of_6_letters
#[kani::proof]
#[kani::unwind(8)]
fn c10_back_crlf() {
    let code = back_step(crlf!(blank_or_a(), sym_byte(), b' '));
    kani::cover!(code == 2, "comment recovered");
    kani::cover!(code == 1, "not a comment line");
}

//@ tier=quick cap=900
#[kani::proof]
#[kani::unwind(4)]
fn c10_back_canary() {
    back_step(gap!(a, b));
    assert!(false, "canary");
}
