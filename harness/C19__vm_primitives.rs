//@@ append-to: vm/src/primitives.rs
//! C19 kernel: the string primitives implemented in Rust agree with Unicode-scalar-value
//! semantics -- `char_at`, `slice`, `split_at`, `is_char_boundary`, `len` -- for every string of
//! two scalar values (every combination of encoded widths 1..3, plus 4+1) and every `usize` index.
//! Reference: bit-level UTF-8 decoding and byte ranges computed from the layout, written here
//! independently of `str`'s own methods.
#![allow(unused_imports, dead_code, non_snake_case, unused_unsafe, deprecated, unused_variables)]
use super::*;
use crate::real_std as rstd;

fn fmt_stub(_: rstd::fmt::Arguments<'_>) -> StdString {
    StdString::new()
}

fn ascii() -> u8 { let b: u8 = kani::any(); kani::assume(b < 0x80); b }
fn cont() -> u8 { let b: u8 = kani::any(); kani::assume(b >= 0x80 && b <= 0xBF); b }
fn lead2() -> u8 { let b: u8 = kani::any(); kani::assume(b >= 0xC2 && b <= 0xDF); b }
fn lead3() -> (u8, u8) {
    let l: u8 = kani::any(); kani::assume(l >= 0xE0 && l <= 0xEF);
    let c = cont();
    kani::assume(l != 0xE0 || c >= 0xA0);
    kani::assume(l != 0xED || c <= 0x9F);
    (l, c)
}
fn lead4() -> (u8, u8) {
    let l: u8 = kani::any(); kani::assume(l >= 0xF0 && l <= 0xF4);
    let c = cont();
    kani::assume(l != 0xF0 || c >= 0x90);
    kani::assume(l != 0xF4 || c <= 0x8F);
    (l, c)
}

/// scalar value encoded by `w` bytes starting at `b[at]`
fn decode(b: &[u8], at: usize, w: usize) -> u32 {
    match w {
        1 => b[at] as u32,
        2 => ((b[at] as u32 & 0x1F) << 6) | (b[at + 1] as u32 & 0x3F),
        3 => ((b[at] as u32 & 0x0F) << 12) | ((b[at + 1] as u32 & 0x3F) << 6) | (b[at + 2] as u32 & 0x3F),
        _ => ((b[at] as u32 & 0x07) << 18) | ((b[at + 1] as u32 & 0x3F) << 12) | ((b[at + 2] as u32 & 0x3F) << 6) | (b[at + 3] as u32 & 0x3F),
    }
}

/// The string is two scalar values of widths (w1, w2); boundaries are 0, w1, w1 + w2.
fn check(s: &'static str, w1: usize, w2: usize, canary: bool) {
    let b = s.as_bytes();
    let n = w1 + w2;
    assert!(s.len() == n);
    let boundary = |i: usize| i == 0 || i == w1 || i == n;
    let i: usize = kani::any();
    let j: usize = kani::any();

    // is_char_boundary / len are exported verbatim
    assert!(s.is_char_boundary(i) == boundary(i), "is_char_boundary");

    // char_at: the scalar starting at byte i iff i is a boundary below the length
    match string::char_at(s, i) {
        RuntimeResult::Return(c) => {
            assert!(i == 0 || i == w1, "char_at succeeds only at the start of a scalar value");
            let want = if i == 0 { decode(b, 0, w1) } else { decode(b, w1, w2) };
            assert!(c as u32 == want, "char_at returns the scalar value encoded at i");
            kani::cover!(i == w1, "second scalar read");
        }
        RuntimeResult::Panic(m) => {
            rstd::mem::forget(m);
            assert!(!(i == 0 || i == w1), "char_at fails only off a scalar start");
            kani::cover!(i == n, "index == len is an error");
        }
    }

    // slice: bytes [i, j) iff both are boundaries and i <= j
    match string::slice(s, i, j) {
        RuntimeResult::Return(t) => {
            assert!(boundary(i) && boundary(j) && i <= j, "slice succeeds only on ordered boundaries");
            assert!(t.len() == j - i && t.as_ptr() as usize == s.as_ptr() as usize + i, "slice is bytes [i, j)");
            kani::cover!(i == w1 && j == n, "second scalar sliced");
        }
        RuntimeResult::Panic(m) => {
            rstd::mem::forget(m);
            assert!(!(boundary(i) && boundary(j) && i <= j), "slice fails only on bad or unordered indices");
            kani::cover!(boundary(i) && boundary(j) && i > j, "reversed range is an error value");
        }
    }

    // split_at: two halves that concatenate back to s
    match string::split_at(s, i) {
        RuntimeResult::Return((l, r)) => {
            assert!(boundary(i), "split_at succeeds only on a boundary");
            assert!(l.len() == i && r.len() == n - i);
            assert!(l.as_ptr() == s.as_ptr() && r.as_ptr() as usize == s.as_ptr() as usize + i);
        }
        RuntimeResult::Panic(m) => {
            rstd::mem::forget(m);
            assert!(!boundary(i), "split_at fails only off a boundary");
        }
    }
    if canary {
        assert!(false, "canary");
    }
}

macro_rules! text {
    ($($b: expr),*) => {{
        let buf: &'static mut [u8] = Box::leak(Box::new([$($b),*]));
        let s: &'static str = unsafe { rstd::str::from_utf8_unchecked(buf) };
        s
    }};
}

macro_rules! strprim {
    ($name: ident, $w1: literal, $w2: literal, $body: block) => {
        #[kani::proof]
        #[kani::unwind(6)]
        #[kani::stub(rstd::fmt::format, fmt_stub)]
        fn $name() {
            let s: &'static str = $body;
            check(s, $w1, $w2, false);
        }
    };
}

//@ tier=quick cap=900 funcs=string::char_at,string::slice,string::split_at,str::is_char_boundary bound=widths_1+1;any_usize_indices
strprim!(c19_str_w11, 1, 1, { text![ascii(), ascii()] });
//@ tier=quick cap=900 funcs=string::char_at,string::slice,string::split_at,str::is_char_boundary bound=widths_2+1;any_usize_indices
strprim!(c19_str_w21, 2, 1, { text![lead2(), cont(), ascii()] });
//@ tier=quick cap=900 funcs=string::char_at,string::slice,string::split_at,str::is_char_boundary bound=widths_1+3;any_usize_indices
strprim!(c19_str_w13, 1, 3, { let (l, c) = lead3(); text![ascii(), l, c, cont()] });
//@ tier=quick cap=900 funcs=string::char_at,string::slice,string::split_at,str::is_char_boundary bound=widths_3+2;any_usize_indices
strprim!(c19_str_w32, 3, 2, { let (l, c) = lead3(); text![l, c, cont(), lead2(), cont()] });
//@ tier=quick cap=900 funcs=string::char_at,string::slice,string::split_at,str::is_char_boundary bound=widths_4+1;any_usize_indices
strprim!(c19_str_w41, 4, 1, { let (l, c) = lead4(); text![l, c, cont(), cont(), ascii()] });
//@ tier=thorough cap=1800 funcs=string::char_at,string::slice,string::split_at,str::is_char_boundary bound=widths_2+4;any_usize_indices
strprim!(c19_str_w24, 2, 4, { let (l, c) = lead4(); text![lead2(), cont(), l, c, cont(), cont()] });
//@ tier=thorough cap=1800 funcs=string::char_at,string::slice,string::split_at,str::is_char_boundary bound=widths_3+3;any_usize_indices
strprim!(c19_str_w33, 3, 3, { let (l, c) = lead3(); let (l2, c2) = lead3(); text![l, c, cont(), l2, c2, cont()] });

//@ tier=quick cap=900
#[kani::proof]
#[kani::unwind(6)]
#[kani::stub(rstd::fmt::format, fmt_stub)]
fn c19_str_canary() {
    check(text![ascii(), ascii()], 1, 1, true);
}
