//@@ append-to: vm/src/primitives.rs
//! C06, error paths of the string primitives on LONG strings.  `split_at`, `slice` and `char_at`
//! quote at most 256 characters of the offending string in their error message; computing that
//! excerpt is itself string slicing inside the `extern "C"` wrapper.  The generated C06 harnesses
//! use strings of at most 4 bytes and never reach the 256 limit, so this file adds the layout
//! that does: 255 x 'a', then U+00E9 (two bytes, straddling byte offset 256), then 'b'; every
//! `usize` index / index pair.  The text is concrete (with symbolic bytes at and after offset 255
//! the 256-iteration character loop did not finish in 15 min, not even for the canary); the
//! indices, which select between the success and the error path, are symbolic.
#![allow(unused_imports, dead_code, non_snake_case, unused_unsafe, deprecated, unused_variables)]
use super::*;
use crate::real_std as rstd;

fn fmt_stub(_: rstd::fmt::Arguments<'_>) -> StdString {
    StdString::new()
}

/// fully concrete variant: 255 x 'a', U+00E9 at [255, 257), 'b'
fn long_concrete() -> &'static str {
    let buf: &'static mut [u8; 258] = Box::leak(Box::new([b'a'; 258]));
    buf[255] = 0xC3;
    buf[256] = 0xA9;
    buf[257] = b'b';
    unsafe { rstd::str::from_utf8_unchecked(&buf[..]) }
}

macro_rules! long_harness {
    ($name: ident, |$s: ident, $i: ident, $j: ident| $call: expr, $canary: literal) => {
        #[kani::proof]
        #[kani::unwind(260)]
        #[kani::stub(rstd::fmt::format, fmt_stub)]
        fn $name() {
            let $s = long_concrete();
            let ($i, $j): (usize, usize) = (kani::any(), kani::any());
            let r = rstd::mem::ManuallyDrop::new($call);
            kani::cover!(matches!(&*r, RuntimeResult::Panic(_)), "an error value is reported");
            kani::cover!(matches!(&*r, RuntimeResult::Return(_)), "returns");
            if $canary {
                assert!(false, "canary");
            }
        }
    };
}

//@ tier=quick cap=900 mem=12 funcs=string::char_at bound=concrete_258_byte_string_255_a_then_U+00E9_across_offset_256_then_b;any_usize_index
long_harness!(c06_str_long_char_at, |s, i, j| string::char_at(s, i), false);
//@ tier=quick cap=900 mem=12 funcs=string::split_at bound=concrete_258_byte_string_255_a_then_U+00E9_across_offset_256_then_b;any_usize_index
long_harness!(c06_str_long_split_at, |s, i, j| string::split_at(s, i), false);
//@ tier=quick cap=900 mem=12 funcs=string::slice bound=concrete_258_byte_string_255_a_then_U+00E9_across_offset_256_then_b;any_usize_indices
long_harness!(c06_str_long_slice, |s, i, j| string::slice(s, i, j), false);
//@ tier=quick cap=900 mem=12
long_harness!(c06_str_long_canary, |s, i, j| string::char_at(s, i), true);
