//@@ append-to: vm/src/thread.rs
//! C11, heap-allocated values: strings and `Option<scalar>` through the real
//! `Pushable::vm_push` -> real `Gc::alloc` on the context's collector -> real `Stack` -> real
//! `Getable::from_value`.  The round trip is the identity and the VM-side value is the documented
//! one (a `String` object holding exactly the bytes; `None` = tag 0, `Some x` = data with tag 1 and
//! one field).  Stub: `Gc::get_type_info` (interning cache).  The thread is uninitialised memory.
#![allow(unused_imports, dead_code, non_snake_case, unused_unsafe, unused_variables, unused_mut)]
use super::*;
use crate::api::{Getable, Pushable};
use crate::gc::__verif_common__vm_gc::type_info_stub;
use crate::real_std as rstd;
use crate::value::ValueRepr::{Byte, Float, Int, Tag};
use rstd::mem::{ManuallyDrop, MaybeUninit};

fn fmt_stub(_: rstd::fmt::Arguments<'_>) -> rstd::string::String {
    rstd::string::String::new()
}

fn fake_thread() -> &'static Thread {
    let b: Box<MaybeUninit<Thread>> = Box::new(MaybeUninit::uninit());
    unsafe { &*(Box::leak(b).as_ptr()) }
}

macro_rules! active {
    ($at: ident) => {
        let gc = Gc::new(Generation::default(), usize::MAX);
        let m = ManuallyDrop::new(Mutex::new(Context::new(gc)));
        let mut guard = m.lock().unwrap();
        rstd::mem::forget(StackFrame::<State>::new_frame(&mut guard.stack, 0, State::Unknown));
        let mut $at = ManuallyDrop::new(ActiveThread { thread: fake_thread(), context: Some(guard) });
    };
}

fn str_roundtrip<const N: usize>(bytes: [u8; N], canary: bool) {
    let s: &str = unsafe { rstd::str::from_utf8_unchecked(&bytes) };
    active!(at);
    let before = at.context.as_ref().unwrap().stack.len();
    let r = ManuallyDrop::new(s.vm_push(&mut at));
    assert!(r.is_ok(), "pushing a short string into an unlimited heap cannot fail");
    assert!(at.context.as_ref().unwrap().stack.len() == before + 1, "exactly one slot pushed");
    {
        let v = at.last().unwrap();
        match v.get_repr() {
            ValueRepr::String(g) => {
                let b = g.as_bytes();
                assert!(b.len() == N, "VM string has the length of the Rust string");
                if N > 0 { assert!(b[0] == bytes[0]); }
                if N > 1 { assert!(b[1] == bytes[1]); }
                if N > 2 { assert!(b[2] == bytes[2]); }
            }
            _ => assert!(false, "documented VM-side representation: a String object"),
        }
    }
    let back: &str = <&str as Getable>::from_value(at.thread(), at.last().unwrap());
    let bb = back.as_bytes();
    assert!(bb.len() == N, "round trip keeps the length");
    if N > 0 { assert!(bb[0] == bytes[0], "byte 0"); }
    if N > 1 { assert!(bb[1] == bytes[1], "byte 1"); }
    if N > 2 { assert!(bb[2] == bytes[2], "byte 2"); }
    kani::cover!(true, "round trip completed");
    if canary {
        assert!(false, "canary");
    }
}

//@ tier=quick cap=900 funcs=Pushable_for_str::vm_push,thread::alloc,Gc::alloc_owned,DataDef_for_str::initialize,Getable_for_str::from_value,Variants::as_ref bound=every_2_byte_ASCII_string
#[kani::proof]
#[kani::unwind(4)]
#[kani::stub(rstd::fmt::format, fmt_stub)]
#[kani::stub(Gc::get_type_info, type_info_stub)]
fn c11_rt_str_ascii2() {
    let (a, b): (u8, u8) = (kani::any(), kani::any());
    kani::assume(a < 0x80 && b < 0x80);
    str_roundtrip([a, b], false);
}

//@ tier=quick cap=900 funcs=Pushable_for_str::vm_push,thread::alloc,Gc::alloc_owned,DataDef_for_str::initialize,Getable_for_str::from_value bound=the_empty_string
#[kani::proof]
#[kani::unwind(4)]
#[kani::stub(rstd::fmt::format, fmt_stub)]
#[kani::stub(Gc::get_type_info, type_info_stub)]
fn c11_rt_str_empty() {
    str_roundtrip([], false);
}

//@ tier=quick cap=900 funcs=Pushable_for_str::vm_push,Getable_for_str::from_value bound=every_3_byte_scalar_value_(U+0800..U+FFFF_minus_surrogates)
#[kani::proof]
#[kani::unwind(5)]
#[kani::stub(rstd::fmt::format, fmt_stub)]
#[kani::stub(Gc::get_type_info, type_info_stub)]
fn c11_rt_str_w3() {
    let (a, b, c): (u8, u8, u8) = (kani::any(), kani::any(), kani::any());
    kani::assume(0xE1 <= a && a <= 0xEC && 0x80 <= b && b <= 0xBF && 0x80 <= c && c <= 0xBF);
    str_roundtrip([a, b, c], false);
}

//@ tier=quick cap=900
#[kani::proof]
#[kani::unwind(4)]
#[kani::stub(rstd::fmt::format, fmt_stub)]
#[kani::stub(Gc::get_type_info, type_info_stub)]
fn c11_rt_str_canary() {
    let (a, b): (u8, u8) = (kani::any(), kani::any());
    kani::assume(a < 0x80 && b < 0x80);
    str_roundtrip([a, b], true);
}

fn option_roundtrip(x: Option<i64>) {
    active!(at);
    let before = at.context.as_ref().unwrap().stack.len();
    let r = ManuallyDrop::new(x.vm_push(&mut at));
    assert!(r.is_ok());
    assert!(at.context.as_ref().unwrap().stack.len() == before + 1, "exactly one slot pushed");
    {
        let v = at.last().unwrap();
        match (v.get_repr(), &x) {
            (Tag(0), None) => (),
            (ValueRepr::Data(d), Some(i)) => {
                assert!(d.tag() == 1 && d.fields.len() == 1, "Some = tag 1, one field");
                assert!(matches!(d.fields[0].get_repr(), Int(j) if j == i));
            }
            _ => assert!(false, "documented VM-side representation of Option"),
        }
    }
    let back: Option<i64> = <Option<i64> as Getable>::from_value(at.thread(), at.last().unwrap());
    assert!(back == x, "round trip is the identity");
    kani::cover!(true, "round trip completed");
}

// `Some` and `None` are separate harnesses: with a symbolic constructor the allocating and the
// non-allocating path are both explored behind every later read (no verdict in 15 min).  `Some(x)`
// alone (push, `push_new_data` = slice of the stack + `Gc::alloc` + pop + push, read back) had no
// verdict in 20 min at 12 GB either: kept in the extended tier (not registered), `None` is decided.
//@ tier=extended cap=3000 mem=24 funcs=Pushable_for_Option::vm_push,OwnedContext::push_new_data,thread::alloc,Def::initialize,Getable_for_Option::from_value,Data::get_variant bound=Some(x)_for_every_i64
#[kani::proof]
#[kani::unwind(4)]
#[kani::stub(rstd::fmt::format, fmt_stub)]
#[kani::stub(Gc::get_type_info, type_info_stub)]
fn c11_rt_option_some() {
    option_roundtrip(Some(kani::any()));
}

//@ tier=quick cap=900 funcs=Pushable_for_Option::vm_push,Getable_for_Option::from_value bound=None
#[kani::proof]
#[kani::unwind(4)]
#[kani::stub(rstd::fmt::format, fmt_stub)]
#[kani::stub(Gc::get_type_info, type_info_stub)]
fn c11_rt_option_none() {
    option_roundtrip(None);
}
