//@@ append-to: vm/src/stack.rs
//! C07: the stack limit is checked on every frame entry (`StackFrame::add_new_frame`): from any
//! stack length, any limit and any callee `max_stack_size`, a frame is entered only if
//! `len + max_stack_size <= limit`; otherwise `StackOverflow(limit)` and nothing is pushed.
//! Together with `FunctionEnv::emit` (static model) and the per-instruction `adjust` agreement
//! (C01 harnesses) this is the inductive argument that a closure frame never grows past the limit.
#![allow(unused_imports, dead_code, non_snake_case, unused_unsafe, unused_variables, unused_mut)]
use super::*;
use crate::real_std as rstd;
use crate::source_map::{LocalMap, SourceMap};
use crate::value::BytecodeFunction;
use crate::value::ValueRepr::Int;
use rstd::mem::ManuallyDrop;

fn fmt_stub(_: rstd::fmt::Arguments<'_>) -> String {
    String::new()
}

/// hand-laid closure (no upvars) over a function whose `max_stack_size` is `m`
fn closure_with_max(m: VmIndex) -> GcPtr<ClosureData> {
    let bf: &'static mut ManuallyDrop<BytecodeFunction> =
        Box::leak(Box::new(ManuallyDrop::new(BytecodeFunction {
            name: Symbol::from("f"),
            args: 0,
            max_stack_size: m,
            instructions: vec![],
            inner_functions: vec![],
            strings: vec![],
            records: vec![],
            debug_info: crate::compiler::DebugInfo {
                source_map: SourceMap::new(),
                local_map: LocalMap::new(),
                upvars: vec![],
                source_name: String::new(),
            },
        })));
    unsafe {
        let f: GcPtr<BytecodeFunction> = GcPtr::from_raw(&**bf as *const BytecodeFunction);
        let raw: &'static mut [u64; 4] = Box::leak(Box::new([0u64; 4]));
        let cd = raw.as_mut_ptr() as *mut ClosureData;
        rstd::ptr::write(rstd::ptr::addr_of_mut!((*cd).function), f);
        (*cd).upvars.set_len(0);
        GcPtr::from_raw(cd as *const ClosureData)
    }
}

fn frame_step(canary: bool) {
    let mut stack = ManuallyDrop::new(Stack::new());
    let limit: VmIndex = kani::any();
    stack.set_max_stack_size(limit);
    rstd::mem::forget(StackFrame::<State>::new_frame(&mut stack, 0, State::Unknown));
    kani::assume(stack.get_frames().len() == 1);
    let n: VmIndex = kani::any();
    kani::assume(n <= 3);
    if n >= 1 { stack.push(Int(1)); }
    if n >= 2 { stack.push(Int(2)); }
    if n >= 3 { stack.push(Int(3)); }
    let args: VmIndex = kani::any();
    kani::assume(args <= n);
    let m: VmIndex = kani::any();
    kani::assume(m <= (1 << 31));
    let cl = closure_with_max(m);
    let state = ClosureState { closure: unsafe { cl.unrooted() }, instruction_index: 0 };
    let excess: bool = kani::any();
    let r = ManuallyDrop::new(
        StackFrame::<State>::add_new_frame(&mut stack, args, &state, excess).map(|f| (f.offset, f.excess)),
    );
    match &*r {
        Ok((offset, ex)) => {
            assert!((n as u64) + (m as u64) <= limit as u64, "frame entered only within the limit");
            assert!(*offset == n - args && *ex == excess, "frame starts at its first argument");
            assert!(stack.get_frames().len() == 2);
            let top = &stack.get_frames()[1];
            assert!(top.offset == n - args && top.excess == excess);
            assert!(matches!(top.state, State::Closure(_)));
            kani::cover!(true, "frame entered");
        }
        Err(Error::StackOverflow(l)) => {
            assert!(*l == limit);
            assert!((n as u64) + (m as u64) > limit as u64, "overflow reported only past the limit");
            assert!(stack.get_frames().len() == 1, "no frame pushed on overflow");
            kani::cover!(true, "stack overflow reported");
        }
        Err(_) => assert!(false, "the only failure of a frame entry is StackOverflow"),
    }
    assert!(stack.len() == n, "frame entry moves no values");
    if canary {
        assert!(false, "canary");
    }
}

//@ tier=quick cap=900 funcs=StackFrame::add_new_frame,ClosureState::max_stack_size,Stack::set_max_stack_size bound=stack_len_le_3;any_u32_limit;callee_max_le_2^31;any_args_le_len
#[kani::proof]
#[kani::unwind(5)]
#[kani::stub(rstd::fmt::format, fmt_stub)]
fn c07_frame_limit() {
    frame_step(false);
}

//@ tier=quick cap=900
#[kani::proof]
#[kani::unwind(5)]
#[kani::stub(rstd::fmt::format, fmt_stub)]
fn c07_frame_limit_canary() {
    frame_step(true);
}
