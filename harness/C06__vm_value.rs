//@@ append-to: vm/src/value.rs
//! C06 (the VM stays usable / handles stay valid): `Value::obj_eq` is the identity test that
//! `RootedValue::unroot_` uses to find the root slot of a host handle that is being dropped.  On
//! heap values it must be POINTER identity: two distinct objects with equal contents are different
//! handles -- if they compared equal, dropping one handle would release the other's root and the
//! next collection would free a value the host still holds.  Objects are allocated by the real
//! `Gc::alloc`.  Stub: `Gc::get_type_info` (interning cache).
#![allow(unused_imports, dead_code, non_snake_case, unused_unsafe, unused_variables, unused_mut)]
use super::*;
use crate::gc::__verif_common__vm_gc::type_info_stub;
use crate::real_std as rstd;
use rstd::mem::ManuallyDrop;

fn fmt_stub(_: rstd::fmt::Arguments<'_>) -> rstd::string::String {
    rstd::string::String::new()
}

fn new_str(gc: &mut Gc, s: &str) -> GcStr {
    let r = ManuallyDrop::new(gc.alloc(s));
    match &*r {
        Ok(p) => unsafe { p.clone_unrooted() },
        Err(_) => {
            kani::assume(false);
            unreachable!()
        }
    }
}

fn new_data(gc: &mut Gc, tag: VmTag, elems: &[Value]) -> GcPtr<DataStruct> {
    let r = ManuallyDrop::new(gc.alloc(Def { tag, elems }));
    match &*r {
        Ok(p) => unsafe { p.clone_unrooted() },
        Err(_) => {
            kani::assume(false);
            unreachable!()
        }
    }
}

// (two `Def` allocations: no verdict in 20 min; the string twin below is decided in 24 s)
//@ tier=extended cap=3000 mem=24 funcs=Value::obj_eq,GcPtr::ptr_eq,Gc::alloc bound=two_distinct_data_objects_with_equal_tag_and_equal_Int_field
#[kani::proof]
#[kani::unwind(4)]
#[kani::stub(rstd::fmt::format, fmt_stub)]
#[kani::stub(Gc::get_type_info, type_info_stub)]
fn c06_obj_eq_data() {
    let mut gc = ManuallyDrop::new(Gc::new(Generation::default(), usize::MAX));
    let x: VmInt = kani::any();
    let tag: VmTag = kani::any();
    let leaf = [Value::from(ValueRepr::Int(x))];
    let d1 = new_data(&mut gc, tag, &leaf);
    let d2 = new_data(&mut gc, tag, &leaf);
    let (a, b) = unsafe {
        (
            ManuallyDrop::new(Value::from(ValueRepr::Data(d1.unrooted()))),
            ManuallyDrop::new(Value::from(ValueRepr::Data(d2.unrooted()))),
        )
    };
    assert!(a.obj_eq(&a) && b.obj_eq(&b), "an object is identical to itself");
    assert!(!a.obj_eq(&b) && !b.obj_eq(&a), "equal contents are not identity");
    kani::cover!(true, "compared");
}

//@ tier=quick cap=1200 mem=12 funcs=Value::obj_eq,GcPtr::ptr_eq,Gc::alloc bound=two_distinct_string_objects_holding_the_same_2_ASCII_bytes
#[kani::proof]
#[kani::unwind(4)]
#[kani::stub(rstd::fmt::format, fmt_stub)]
#[kani::stub(Gc::get_type_info, type_info_stub)]
fn c06_obj_eq_string() {
    let mut gc = ManuallyDrop::new(Gc::new(Generation::default(), usize::MAX));
    let (x, y): (u8, u8) = (kani::any(), kani::any());
    kani::assume(x < 0x80 && y < 0x80);
    let bytes = [x, y];
    let text: &str = unsafe { rstd::str::from_utf8_unchecked(&bytes) };
    let s1 = new_str(&mut gc, text);
    let s2 = new_str(&mut gc, text);
    let (a, b) = unsafe {
        (
            ManuallyDrop::new(Value::from(ValueRepr::String(s1.unrooted()))),
            ManuallyDrop::new(Value::from(ValueRepr::String(s2.unrooted()))),
        )
    };
    assert!(a.obj_eq(&a) && b.obj_eq(&b), "an object is identical to itself");
    assert!(!a.obj_eq(&b) && !b.obj_eq(&a), "equal contents are not identity");
    kani::cover!(true, "compared");
}

//@ tier=quick cap=1200
#[kani::proof]
#[kani::unwind(4)]
#[kani::stub(rstd::fmt::format, fmt_stub)]
#[kani::stub(Gc::get_type_info, type_info_stub)]
fn c06_obj_eq_heap_canary() {
    let mut gc = ManuallyDrop::new(Gc::new(Generation::default(), usize::MAX));
    let (x, y): (u8, u8) = (kani::any(), kani::any());
    kani::assume(x < 0x80 && y < 0x80);
    let bytes = [x, y];
    let text: &str = unsafe { rstd::str::from_utf8_unchecked(&bytes) };
    let s1 = new_str(&mut gc, text);
    let s2 = new_str(&mut gc, text);
    let (a, b) = unsafe {
        (
            ManuallyDrop::new(Value::from(ValueRepr::String(s1.unrooted()))),
            ManuallyDrop::new(Value::from(ValueRepr::String(s2.unrooted()))),
        )
    };
    assert!(a.obj_eq(&a) && !a.obj_eq(&b));
    assert!(false, "canary");
}
