//@@ append-to: vm/src/thread.rs
//! Shared by the C05 and C13 harnesses: hand-built `Thread` values.  They are real `Thread`s (real
//! parent links, real `Mutex<Context>` with a real `Gc` of the given generation, real
//! `child_threads` slab and `rooted_values`); only `global_state` is an uninitialised allocation,
//! which the code under test compares by address and never reads.  Never dropped.
#![allow(unused_imports, dead_code, non_snake_case, unused_unsafe, unused_variables, unused_mut)]
use super::*;
use crate::real_std as rstd;
use rstd::mem::{ManuallyDrop, MaybeUninit};

pub(crate) fn fake_global() -> &'static ManuallyDrop<Arc<GlobalVmState>> {
    let a: Arc<MaybeUninit<GlobalVmState>> = Arc::new_uninit();
    let a: Arc<GlobalVmState> = unsafe { a.assume_init() };
    Box::leak(Box::new(ManuallyDrop::new(a)))
}

pub(crate) fn mk_thread(
    global: &Arc<GlobalVmState>,
    parent: Option<&'static Thread>,
    generation: Generation,
) -> &'static Thread {
    let t = Thread {
        // bitwise copy of the Arc; neither copy is ever dropped
        global_state: unsafe { rstd::ptr::read(global) },
        parent: parent.map(|p| unsafe { GcPtr::from_raw(p as *const Thread) }),
        rooted_values: RwLock::new(Vec::new()),
        child_threads: Default::default(),
        thread_index: usize::MAX,
        context: Mutex::new(Context::new(Gc::new(generation, usize::MAX))),
        interrupt: AtomicBool::new(false),
    };
    let b: &'static mut ManuallyDrop<Thread> = Box::leak(Box::new(ManuallyDrop::new(t)));
    &**b
}

/// the context lock of a hand-built thread, for harnesses that live in other modules
pub(crate) fn lock_context(t: &'static Thread) -> MutexGuard<'static, Context> {
    t.context.lock().unwrap()
}

