//@@ append-to: vm/src/gc.rs
//! C05: the collector's mark phase and collection trigger (vm/src/gc.rs).
//!
//! Objects are allocated through the real `Gc::alloc`; every edge and every root flag of a small
//! object graph is symbolic (self loops, cycles, sharing, unreachable cycles); roots are traced with
//! the real `Trace for GcPtr<T>` / `Gc::mark`; afterwards an object is marked iff it is reachable.
//! Sweep frees by mark bit only, so "never frees a reachable value" rests on exactly this.
//!
//! Stub (part of the claim): `Gc::get_type_info` (hashbrown interning of `TypeInfo`, a cache) is
//! replaced by a fresh leaked `TypeInfo` with the same `drop` and `generation`.
#![allow(unused_imports, dead_code, non_snake_case, unused_unsafe, unused_variables, unused_mut)]
use super::*;
use crate::real_std as rstd;
use rstd::mem::ManuallyDrop;

fn fmt_stub(_: rstd::fmt::Arguments<'_>) -> String {
    String::new()
}

use super::__verif_common__vm_gc::type_info_stub;

/// Harness-local heap object: two optional outgoing edges (the pattern of gc.rs's own tests).
struct Node {
    id: u8,
    e1: Option<GcPtr<Node>>,
    e2: Option<GcPtr<Node>>,
}

unsafe impl Trace for Node {
    fn trace(&self, gc: &mut Gc) {
        if let Some(p) = &self.e1 {
            p.trace(gc);
        }
        if let Some(p) = &self.e2 {
            p.trace(gc);
        }
    }
}

fn new_node(gc: &mut Gc, id: u8) -> GcPtr<Node> {
    let r = ManuallyDrop::new(gc.alloc(Move(Node { id, e1: None, e2: None })));
    match &*r {
        Ok(p) => unsafe { p.clone_unrooted() },
        Err(_) => {
            kani::assume(false);
            unreachable!()
        }
    }
}

fn marked<T>(p: &GcPtr<T>) -> bool {
    p.header().marked.get()
}

/// pick `None`, `a` or `b`
fn pick(sel: u8, a: &GcPtr<Node>, b: &GcPtr<Node>) -> Option<GcPtr<Node>> {
    match sel {
        0 => None,
        1 => Some(unsafe { a.unrooted() }),
        _ => Some(unsafe { b.unrooted() }),
    }
}

//@ tier=quick cap=900 funcs=Gc::alloc,Gc::alloc_ignore_limit_,AllocPtr::new,GcPtr::trace,Gc::mark,GcPtr::header,GcHeader::generation bound=2_objects;2_edges_each;every_edge_and_root_flag_symbolic
#[kani::proof]
#[kani::unwind(4)]
#[kani::stub(rstd::fmt::format, fmt_stub)]
#[kani::stub(Gc::get_type_info, type_info_stub)]
fn c05_mark_2() {
    let mut gc = ManuallyDrop::new(Gc::new(Generation::default(), usize::MAX));
    let mut a = new_node(&mut gc, 0);
    let mut b = new_node(&mut gc, 1);
    let (a1, a2, b1, b2): (u8, u8, u8, u8) = (kani::any(), kani::any(), kani::any(), kani::any());
    kani::assume(a1 < 3 && a2 < 3 && b1 < 3 && b2 < 3);
    unsafe {
        let (ea1, ea2, eb1, eb2) = (pick(a1, &a, &b), pick(a2, &a, &b), pick(b1, &a, &b), pick(b2, &a, &b));
        a.as_mut().e1 = ea1;
        a.as_mut().e2 = ea2;
        b.as_mut().e1 = eb1;
        b.as_mut().e2 = eb2;
    }
    let (root_a, root_b): (bool, bool) = (kani::any(), kani::any());
    assert!(!marked(&a) && !marked(&b), "fresh objects are unmarked");
    if root_a {
        a.trace(&mut gc);
    }
    if root_b {
        b.trace(&mut gc);
    }
    // reachability fix-point over 2 nodes
    let a_to_b = a1 == 2 || a2 == 2;
    let b_to_a = b1 == 1 || b2 == 1;
    let reach_a = root_a || (root_b && b_to_a);
    let reach_b = root_b || (root_a && a_to_b);
    assert!(marked(&a) == reach_a, "a marked iff reachable");
    assert!(marked(&b) == reach_b, "b marked iff reachable");
    kani::cover!(reach_a && !root_a, "a reached only through b");
    kani::cover!(!reach_a && !reach_b, "nothing reachable");
    kani::cover!(a1 == 1 && root_a, "self loop terminates");
    kani::cover!(a_to_b && b_to_a && root_a, "cycle terminates");
}

//@ tier=thorough cap=3000 funcs=Gc::alloc,GcPtr::trace,Gc::mark bound=3_objects;1_edge_each;every_edge_and_root_flag_symbolic
#[kani::proof]
#[kani::unwind(5)]
#[kani::stub(rstd::fmt::format, fmt_stub)]
#[kani::stub(Gc::get_type_info, type_info_stub)]
fn c05_mark_3() {
    let mut gc = ManuallyDrop::new(Gc::new(Generation::default(), usize::MAX));
    let mut n0 = new_node(&mut gc, 0);
    let mut n1 = new_node(&mut gc, 1);
    let mut n2 = new_node(&mut gc, 2);
    // one symbolic edge per node: 0 none, 1..=3 -> n0..n2
    let (s0, s1, s2): (u8, u8, u8) = (kani::any(), kani::any(), kani::any());
    kani::assume(s0 < 4 && s1 < 4 && s2 < 4);
    let tgt = |s: u8, n0: &GcPtr<Node>, n1: &GcPtr<Node>, n2: &GcPtr<Node>| unsafe {
        match s {
            0 => None,
            1 => Some(n0.unrooted()),
            2 => Some(n1.unrooted()),
            _ => Some(n2.unrooted()),
        }
    };
    unsafe {
        let (t0, t1, t2) = (tgt(s0, &n0, &n1, &n2), tgt(s1, &n0, &n1, &n2), tgt(s2, &n0, &n1, &n2));
        n0.as_mut().e1 = t0;
        n1.as_mut().e1 = t1;
        n2.as_mut().e1 = t2;
    }
    let (r0, r1, r2): (bool, bool, bool) = (kani::any(), kani::any(), kani::any());
    if r0 {
        n0.trace(&mut gc);
    }
    if r1 {
        n1.trace(&mut gc);
    }
    if r2 {
        n2.trace(&mut gc);
    }
    // reachability: three rounds of propagation suffice for 3 nodes
    let edge = |s: u8, to: u8| s == to + 1;
    let mut m = [r0, r1, r2];
    let step = |m: [bool; 3]| {
        [
            m[0] || (m[1] && edge(s1, 0)) || (m[2] && edge(s2, 0)) || (m[0] && edge(s0, 0)),
            m[1] || (m[0] && edge(s0, 1)) || (m[2] && edge(s2, 1)),
            m[2] || (m[0] && edge(s0, 2)) || (m[1] && edge(s1, 2)),
        ]
    };
    m = step(m);
    m = step(m);
    m = step(m);
    assert!(marked(&n0) == m[0] && marked(&n1) == m[1] && marked(&n2) == m[2], "marked iff reachable");
    kani::cover!(m[2] && !r2 && !edge(s0, 2), "two-hop path");
    kani::cover!(!m[0] && !m[1] && !m[2], "nothing reachable");
}

/// `Gc::mark` on one object for every pair of generations: an object is skipped (reported as
/// "already handled", not marked, not traversed) iff it belongs to a strictly older heap or is
/// marked already.
//@ tier=quick cap=900 funcs=Gc::mark,GcHeader::generation,Generation::is_parent_of bound=1_object;any_pair_of_generations;any_prior_mark_bit
#[kani::proof]
#[kani::unwind(4)]
#[kani::stub(rstd::fmt::format, fmt_stub)]
#[kani::stub(Gc::get_type_info, type_info_stub)]
fn c05_mark_generation() {
    let owner_gen: i32 = kani::any();
    let collector_gen: i32 = kani::any();
    kani::assume(owner_gen >= 0 && collector_gen >= 0);
    let mut owner = ManuallyDrop::new(Gc::new(Generation(owner_gen), usize::MAX));
    let mut collector = ManuallyDrop::new(Gc::new(Generation(collector_gen), usize::MAX));
    let obj = new_node(&mut owner, 0);
    let pre: bool = kani::any();
    obj.header().marked.set(pre);
    let skipped = collector.mark(&obj);
    let older = owner_gen < collector_gen;
    assert!(skipped == (older || pre), "skip iff strictly older heap or already marked");
    assert!(marked(&obj) == (pre || !older), "mark bit set unless the object belongs to an older heap");
    kani::cover!(older && !pre, "parent heap object left alone");
    kani::cover!(!older && !pre, "own or younger object marked");
}

/// A child collector tracing through an edge into its parent's heap stops there: the parent
/// object is neither marked nor traversed, so a child collection never touches parent mark bits.
//@ tier=quick cap=1200 funcs=GcPtr::trace,Gc::mark bound=child_object->parent_object->child_object
#[kani::proof]
#[kani::unwind(4)]
#[kani::stub(rstd::fmt::format, fmt_stub)]
#[kani::stub(Gc::get_type_info, type_info_stub)]
fn c05_mark_across_generations() {
    let mut parent = ManuallyDrop::new(Gc::new(Generation::default(), usize::MAX));
    let mut child = ManuallyDrop::new(parent.new_child_gc());
    let mut c1 = new_node(&mut child, 0);
    let mut p = new_node(&mut parent, 1);
    let c2 = new_node(&mut child, 2);
    let link: bool = kani::any();
    unsafe {
        // (a parent object pointing into a child heap cannot arise; it is here to show that the
        // traversal really stops at the parent object)
        p.as_mut().e1 = Some(c2.unrooted());
        if link {
            c1.as_mut().e1 = Some(p.unrooted());
        }
    }
    c1.trace(&mut child);
    assert!(marked(&c1), "root object of the collecting heap is marked");
    assert!(!marked(&p), "parent-heap object is not marked by a child collection");
    assert!(!marked(&c2), "traversal stops at the parent-heap object");
    kani::cover!(link, "edge into the parent heap");
}

/// The collection trigger: `check_collect` collects iff `allocated_memory >= collect_limit` and
/// then sets `collect_limit = 2 * allocated_memory` (empty heap: sweep has nothing to free).
//@ tier=quick cap=600 funcs=Gc::check_collect,Gc::collect,Gc::sweep bound=empty_heap;any_usize_counters
#[kani::proof]
#[kani::unwind(4)]
#[kani::stub(rstd::fmt::format, fmt_stub)]
fn c05_trigger() {
    struct NoRoots;
    unsafe impl Trace for NoRoots {}
    impl CollectScope for NoRoots {
        fn scope<F>(&self, gc: &mut Gc, f: F)
        where
            F: FnOnce(&mut Gc),
        {
            f(gc)
        }
    }
    let mut gc = ManuallyDrop::new(Gc::new(Generation::default(), usize::MAX));
    let allocated: usize = kani::any();
    let limit: usize = kani::any();
    kani::assume(allocated <= isize::MAX as usize);
    gc.allocated_memory = allocated;
    gc.collect_limit = limit;
    let collected = unsafe { gc.check_collect(NoRoots) };
    assert!(collected == (allocated >= limit), "collect iff the limit is reached");
    if collected {
        assert!(gc.collect_limit == 2 * allocated, "next limit is twice the live size");
    } else {
        assert!(gc.collect_limit == limit);
    }
    assert!(gc.allocated_memory == allocated);
    kani::cover!(collected);
    kani::cover!(!collected);
}

//@ tier=quick cap=900
#[kani::proof]
#[kani::unwind(4)]
#[kani::stub(rstd::fmt::format, fmt_stub)]
#[kani::stub(Gc::get_type_info, type_info_stub)]
fn c05_mark_canary() {
    let mut gc = ManuallyDrop::new(Gc::new(Generation::default(), usize::MAX));
    let a = new_node(&mut gc, 0);
    a.trace(&mut gc);
    assert!(marked(&a));
    assert!(false, "canary");
}
