//@@ append-to: vm/src/value.rs
//! C13: the per-pointer share-or-copy decision of `Cloner::deep_clone` on a real heap object.
//! A one-field data value is allocated by the real `Gc::alloc` of an *owner* collector of generation
//! `go` and cloned with the real `Cloner` into a *receiver* collector of generation `gd`:
//!  * `go <= gd` (the receiver is the owner or one of its descendants on the same path): the very
//!    same pointer comes back and nothing is allocated;
//!  * `go > gd` (the value lives in a younger heap than the receiver): a fresh object owned by the
//!    receiver (header generation `gd`, accounted to the receiver) with equal tag and field, and
//!    the source object is untouched -- so no pointer into the younger heap reaches the receiver.
//! Stub: `Gc::get_type_info` (interning cache).  The thread handed to the `Cloner` is uninitialised
//! memory: data values never consult it.
//! STATUS: written in the third session, NOT decided -- even the share path (no copy, no hash
//! map) had no verdict in 25 min; every harness here is in the extended tier and not registered.
#![allow(unused_imports, dead_code, non_snake_case, unused_unsafe, unused_variables, unused_mut)]
use super::*;
use crate::gc::__verif_common__vm_gc::{generation_number, generation_of, type_info_stub};
use crate::real_std as rstd;
use rstd::mem::{ManuallyDrop, MaybeUninit};

fn fmt_stub(_: rstd::fmt::Arguments<'_>) -> rstd::string::String {
    rstd::string::String::new()
}

fn fake_thread() -> &'static Thread {
    let b: Box<MaybeUninit<Thread>> = Box::new(MaybeUninit::uninit());
    unsafe { &*(Box::leak(b).as_ptr()) }
}

fn new_data(gc: &mut Gc, tag: VmTag, elems: &[Value]) -> GcPtr<DataStruct> {
    let r = ManuallyDrop::new(gc.alloc(Def { tag, elems }));
    match &*r {
        Ok(p) => unsafe { p.clone_unrooted() },
        Err(_) => {
            kani::assume(false);
            unreachable!()
        }
    }
}

fn clone_step(go: i32, gd: i32, full: bool, canary: bool) {
    let mut owner = ManuallyDrop::new(Gc::new(generation_of(go), usize::MAX));
    let mut receiver = ManuallyDrop::new(Gc::new(generation_of(gd), usize::MAX));
    let x: VmInt = kani::any();
    let tag: VmTag = kani::any();
    kani::assume(tag & DataStruct::record_bit() == 0);
    let leaf = [Value::from(ValueRepr::Int(x))];
    let src = new_data(&mut owner, tag, &leaf);
    let src_addr = &*src as *const DataStruct as usize;
    let value = ManuallyDrop::new(Value::from(ValueRepr::Data(unsafe { src.unrooted() })));
    assert!(generation_number(value.generation()) == go, "an object carries the generation of the heap that owns it");
    let before = receiver.allocated_memory();
    let got: Option<usize> = {
        let mut cloner = ManuallyDrop::new(Cloner::new(fake_thread(), &mut receiver));
        if full {
            // what `deep_clone_value` does when the two threads may not share values at all
            // (siblings, unrelated VMs): nothing may be shared, whatever its generation number
            cloner.force_full_clone();
        }
        let r = ManuallyDrop::new(cloner.deep_clone(&value));
        match &*r {
            Ok(v) => match v.get_value().get_repr() {
                ValueRepr::Data(p) => Some(&**p as *const DataStruct as usize),
                _ => None,
            },
            Err(_) => None,
        }
    };
    let addr = match got {
        Some(a) => a,
        None => {
            assert!(false, "cloning a data value of scalars into an unlimited heap yields a data value");
            return;
        }
    };
    let copy = unsafe { &*(addr as *const DataStruct) };
    if go <= gd && !full {
        assert!(addr == src_addr, "values of the receiver's own or an older heap are shared");
        assert!(receiver.allocated_memory() == before, "sharing allocates nothing");
        kani::cover!(true, "shared");
    } else {
        assert!(addr != src_addr, "a value of a younger heap is copied");
        assert!(receiver.allocated_memory() > before, "the copy is accounted to the receiver");
        let cv = ManuallyDrop::new(Value::from(ValueRepr::Data(unsafe { GcPtr::from_raw(copy) })));
        assert!(generation_number(cv.generation()) == gd, "the copy belongs to the receiver's generation");
        assert!(copy.tag() == tag && copy.fields.len() == 1, "same constructor, same arity");
        assert!(matches!(copy.fields[0].get_repr(), ValueRepr::Int(i) if *i == x), "same field");
        kani::cover!(true, "copied");
    }
    // the source is never modified
    assert!(src.tag() == tag && src.fields.len() == 1);
    assert!(matches!(src.fields[0].get_repr(), ValueRepr::Int(i) if *i == x));
    if canary {
        assert!(false, "canary");
    }
}

//@ tier=extended cap=3600 mem=24 funcs=Cloner::deep_clone,Cloner::deep_clone_inner,Value::generation,Generation::can_contain_values_from bound=owner_generation_le_receiver_generation_(all_pairs_in_0..=i32::MAX);data_value_of_one_Int_field
#[kani::proof]
#[kani::unwind(4)]
#[kani::stub(rstd::fmt::format, fmt_stub)]
#[kani::stub(Gc::get_type_info, type_info_stub)]
fn c13_clone_shared() {
    let (go, gd): (i32, i32) = (kani::any(), kani::any());
    kani::assume(0 <= go && go <= gd);
    clone_step(go, gd, false, false);
}

//@ tier=extended cap=3600 mem=24 funcs=Cloner::deep_clone,Cloner::deep_clone_inner,Cloner::deep_clone_data,Cloner::deep_clone_ptr,Gc::alloc,VariantDef::initialize bound=owner_generation_1;receiver_generation_0;data_value_of_one_Int_field unwindset=simd_bitmask:17,fnv.*write:18,swap_nonoverlapping:12
#[kani::proof]
#[kani::unwind(4)]
#[kani::stub(rstd::fmt::format, fmt_stub)]
#[kani::stub(Gc::get_type_info, type_info_stub)]
fn c13_clone_copied() {
    clone_step(1, 0, false, false);
}

//@ tier=extended cap=3600 mem=24 funcs=Cloner::force_full_clone,Cloner::deep_clone,Cloner::deep_clone_inner,Cloner::deep_clone_data,Generation::disjoint bound=full_clone_(threads_that_may_not_share);owner_and_receiver_both_in_the_ROOT_generation_0;data_value_of_one_Int_field
#[kani::proof]
#[kani::unwind(4)]
#[kani::stub(rstd::fmt::format, fmt_stub)]
#[kani::stub(Gc::get_type_info, type_info_stub)]
fn c13_clone_full_root() {
    clone_step(0, 0, true, false);
}

//@ tier=extended cap=3600 mem=24
#[kani::proof]
#[kani::unwind(4)]
#[kani::stub(rstd::fmt::format, fmt_stub)]
#[kani::stub(Gc::get_type_info, type_info_stub)]
fn c13_clone_canary() {
    let (go, gd): (i32, i32) = (kani::any(), kani::any());
    kani::assume(0 <= go && go <= gd);
    clone_step(go, gd, false, true);
}
