//@@ append-to: vm/src/thread.rs
//! C06 beyond the primitives: the host-facing pieces that run after an evaluation.
//!  * dropping a host handle (`RootedValue`) to any scalar result never panics;
//!  * `reset_stack` (what `Thread` does after a failed evaluation) unwinds every frame the failed
//!    run left behind and reports an error value, never a panic.
#![allow(unused_imports, dead_code, non_snake_case, unused_unsafe, unused_variables, unused_mut)]
use super::*;
use crate::real_std as rstd;
use crate::value::ValueRepr::{Byte, Tag};
use rstd::mem::{ManuallyDrop, MaybeUninit};

fn fmt_stub(_: rstd::fmt::Arguments<'_>) -> rstd::string::String {
    rstd::string::String::new()
}

fn fake_global() -> &'static ManuallyDrop<Arc<GlobalVmState>> {
    let a: Arc<MaybeUninit<GlobalVmState>> = Arc::new_uninit();
    let a: Arc<GlobalVmState> = unsafe { a.assume_init() };
    Box::leak(Box::new(ManuallyDrop::new(a)))
}

fn mk_thread() -> &'static Thread {
    let t = Thread {
        global_state: unsafe { rstd::ptr::read(&**fake_global()) },
        parent: None,
        rooted_values: RwLock::new(Vec::new()),
        child_threads: Default::default(),
        thread_index: usize::MAX,
        context: Mutex::new(Context::new(Gc::new(Generation::default(), usize::MAX))),
        interrupt: AtomicBool::new(false),
    };
    let b: &'static mut ManuallyDrop<Thread> = Box::leak(Box::new(ManuallyDrop::new(t)));
    &**b
}

fn any_scalar_value() -> Value {
    let k: u8 = kani::any();
    kani::assume(k < 4);
    let r = match k {
        0 => Int(kani::any()),
        1 => Float(f64::from_bits(kani::any())),
        2 => Byte(kani::any()),
        _ => Tag(kani::any()),
    };
    Value::from(r)
}

//@ tier=quick cap=900 funcs=RootedValue::new,RootedValue::drop,RootedValue::unroot_,Value::obj_eq bound=any_scalar_value_incl_NaN;one_other_handle_alive
#[kani::proof]
#[kani::unwind(5)]
#[kani::stub(rstd::fmt::format, fmt_stub)]
fn c06_unroot_scalar() {
    let t = mk_thread();
    let other = any_scalar_value();
    let v = any_scalar_value();
    unsafe {
        // another handle stays alive (so the search in unroot_ has something to skip)
        let keep = ManuallyDrop::new(RootedValue::<&Thread>::new(t, &other));
        let h = RootedValue::<&Thread>::new(t, &v);
        assert!(t.rooted_values.read().unwrap().len() == 2);
        drop(h);
        // exactly the dropped handle's root is gone
        let rv = t.rooted_values.read().unwrap();
        assert!(rv.len() == 1, "one root left");
        assert!(rv[0].obj_eq(&other), "the other handle's root survives");
    }
    kani::cover!(matches!(v.get_repr(), Float(f) if f.is_nan()), "NaN handle dropped");
    kani::cover!(true, "handle dropped");
}

/// Frames as a failed run leaves them: bottom `Unknown` frame plus up to three frames on top.
//@ tier=quick cap=900 funcs=reset_stack,StackFrame::exit_scope bound=up_to_3_frames_above_level;level_le_depth;no_locked_extern_frame
#[kani::proof]
#[kani::unwind(6)]
#[kani::stub(rstd::fmt::format, fmt_stub)]
fn c06_reset_stack() {
    let mut stack = ManuallyDrop::new(Stack::new());
    rstd::mem::forget(StackFrame::<State>::new_frame(&mut stack, 0, State::Unknown));
    let extra: usize = kani::any();
    kani::assume(extra <= 3);
    let mut n = 0;
    while n < 3 {
        if n < extra {
            stack.push(Int(kani::any()));
            let args: VmIndex = if kani::any() { 0 } else { 1 };
            rstd::mem::forget(StackFrame::<State>::new_frame(&mut stack, args, State::Unknown));
        }
        n += 1;
    }
    let depth = 1 + extra;
    let level: usize = kani::any();
    kani::assume(level >= 1 && level <= depth);
    let frame = StackFrame::<State>::current(&mut stack);
    let r = ManuallyDrop::new(reset_stack(frame, level));
    assert!(r.is_ok(), "no locked frame: unwinding succeeds");
    assert!(stack.get_frames().len() == level, "exactly `level` frames left");
    kani::cover!(extra == 3 && level == 1, "three frames unwound");
    kani::cover!(level == depth, "nothing to unwind");
}

//@ tier=quick cap=900
#[kani::proof]
#[kani::unwind(5)]
#[kani::stub(rstd::fmt::format, fmt_stub)]
fn c06_unroot_canary() {
    let t = mk_thread();
    let v = any_scalar_value();
    unsafe {
        let h = RootedValue::<&Thread>::new(t, &v);
        drop(h);
    }
    assert!(false, "canary");
}
