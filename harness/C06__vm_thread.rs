//@@ append-to: vm/src/thread.rs
//! C06 beyond the primitives: the host-facing pieces that run after an evaluation.
//!  * dropping a host handle (`RootedValue`) to any scalar result never panics;
//!  * `reset_stack` (what `Thread` does after a failed evaluation) unwinds every frame the failed
//!    run left behind and reports an error value, never a panic.
#![allow(unused_imports, dead_code, non_snake_case, unused_unsafe, unused_variables, unused_mut)]
use super::*;
use crate::real_std as rstd;
use crate::value::ValueRepr::{Byte, Tag};
use rstd::mem::{ManuallyDrop, MaybeUninit};

fn fmt_stub(_: rstd::fmt::Arguments<'_>) -> rstd::string::String {
    rstd::string::String::new()
}

fn fake_global() -> &'static ManuallyDrop<Arc<GlobalVmState>> {
    let a: Arc<MaybeUninit<GlobalVmState>> = Arc::new_uninit();
    let a: Arc<GlobalVmState> = unsafe { a.assume_init() };
    Box::leak(Box::new(ManuallyDrop::new(a)))
}

fn mk_thread() -> &'static Thread {
    let t = Thread {
        global_state: unsafe { rstd::ptr::read(&**fake_global()) },
        parent: None,
        rooted_values: RwLock::new(Vec::new()),
        child_threads: Default::default(),
        thread_index: usize::MAX,
        context: Mutex::new(Context::new(Gc::new(Generation::default(), usize::MAX))),
        interrupt: AtomicBool::new(false),
    };
    let b: &'static mut ManuallyDrop<Thread> = Box::leak(Box::new(ManuallyDrop::new(t)));
    &**b
}

fn any_scalar_value() -> Value {
    let k: u8 = kani::any();
    kani::assume(k < 4);
    let r = match k {
        0 => Int(kani::any()),
        1 => Float(f64::from_bits(kani::any())),
        2 => Byte(kani::any()),
        _ => Tag(kani::any()),
    };
    Value::from(r)
}

fn unroot_one(v: Value, canary: bool) {
    let t = mk_thread();
    unsafe {
        let h = RootedValue::<&Thread>::new(t, &v);
        assert!(t.rooted_values.read().unwrap().len() == 1);
        drop(h);
        assert!(t.rooted_values.read().unwrap().len() == 0, "the handle's root is gone");
    }
    kani::cover!(true, "handle dropped");
    if canary {
        assert!(false, "canary");
    }
}

//@ tier=quick cap=900 funcs=RootedValue::new,RootedValue::drop,RootedValue::unroot_,Value::obj_eq bound=any_f64_bit_pattern_incl_NaN;single_handle
#[kani::proof]
#[kani::unwind(5)]
#[kani::stub(rstd::fmt::format, fmt_stub)]
fn c06_unroot_float() {
    let x: u64 = kani::any();
    kani::cover!(f64::from_bits(x).is_nan(), "NaN handle");
    unroot_one(Value::from(Float(f64::from_bits(x))), false);
}

macro_rules! unroot_variant {
    ($name: ident, $mk: expr) => {
        #[kani::proof]
        #[kani::unwind(5)]
        #[kani::stub(rstd::fmt::format, fmt_stub)]
        fn $name() {
            unroot_one(Value::from($mk), false);
        }
    };
}
//@ tier=quick cap=900 funcs=RootedValue::new,RootedValue::drop,RootedValue::unroot_,Value::obj_eq bound=any_i64;single_handle
unroot_variant!(c06_unroot_int, Int(kani::any()));
//@ tier=quick cap=900 funcs=RootedValue::new,RootedValue::drop,RootedValue::unroot_,Value::obj_eq bound=any_u8;single_handle
unroot_variant!(c06_unroot_byte, Byte(kani::any()));
//@ tier=quick cap=900 funcs=RootedValue::new,RootedValue::drop,RootedValue::unroot_,Value::obj_eq bound=any_u32_tag;single_handle
unroot_variant!(c06_unroot_tag, Tag(kani::any()));

/// `unroot_` finds the slot to release with `Value::obj_eq`: on scalars it must be the identity
/// relation (same variant, same bits), or a handle releases another handle's root / none at all.
//@ tier=quick cap=900 funcs=Value::obj_eq bound=all_pairs_of_scalar_values
#[kani::proof]
#[kani::unwind(3)]
fn c06_obj_eq_scalar() {
    let (ka, kb): (u8, u8) = (kani::any(), kani::any());
    kani::assume(ka < 4 && kb < 4);
    let (xa, xb): (u64, u64) = (kani::any(), kani::any());
    let mk = |k: u8, x: u64| match k {
        0 => Int(x as VmInt),
        1 => Float(f64::from_bits(x)),
        2 => Byte(x as u8),
        _ => Tag(x as VmTag),
    };
    let same = ka == kb
        && match ka {
            0 | 1 => xa == xb,
            2 => xa as u8 == xb as u8,
            _ => xa as VmTag == xb as VmTag,
        };
    let (a, b) = (Value::from(mk(ka, xa)), Value::from(mk(kb, xb)));
    assert!(a.obj_eq(&b) == same, "obj_eq is identity on scalars");
    kani::cover!(same && ka == 1 && f64::from_bits(xa).is_nan(), "a NaN equals itself");
    kani::cover!(!same && ka == kb, "same variant, different payload");
}

/// Frames as a failed run leaves them: bottom `Unknown` frame plus `$extra` frames on top (one
/// harness per depth so that the frame stack has a concrete shape), each entered with 0 or 1
/// arguments; `level` (the depth to unwind to) is symbolic.
/// The stack trace text is diagnostics, not the subject: `Stack::stacktrace` (an iterator
/// `collect` over a slice with a symbolic start) is replaced by an empty trace.
fn stub_stacktrace(_: &Stack, _: usize) -> crate::stack::Stacktrace {
    crate::stack::Stacktrace { frames: Vec::new() }
}

macro_rules! reset_stack_depth {
    ($name: ident, $extra: literal) => {
        #[kani::proof]
        #[kani::unwind(6)]
        #[kani::stub(rstd::fmt::format, fmt_stub)]
        #[kani::stub(crate::stack::Stack::stacktrace, stub_stacktrace)]
        fn $name() {
            let mut stack = ManuallyDrop::new(Stack::new());
            rstd::mem::forget(StackFrame::<State>::new_frame(&mut stack, 0, State::Unknown));
            if $extra >= 1 {
                stack.push(Int(kani::any()));
                let args: VmIndex = if kani::any() { 0 } else { 1 };
                rstd::mem::forget(StackFrame::<State>::new_frame(&mut stack, args, State::Unknown));
            }
            if $extra >= 2 {
                stack.push(Int(kani::any()));
                let args: VmIndex = if kani::any() { 0 } else { 1 };
                rstd::mem::forget(StackFrame::<State>::new_frame(&mut stack, args, State::Unknown));
            }
            if $extra >= 3 {
                stack.push(Int(kani::any()));
                let args: VmIndex = if kani::any() { 0 } else { 1 };
                rstd::mem::forget(StackFrame::<State>::new_frame(&mut stack, args, State::Unknown));
            }
            let depth: usize = 1 + $extra;
            let level: usize = kani::any();
            kani::assume(level >= 1 && level <= depth);
            let frame = StackFrame::<State>::current(&mut stack);
            let r = ManuallyDrop::new(reset_stack(frame, level));
            assert!(r.is_ok(), "no locked frame: unwinding succeeds");
            assert!(stack.get_frames().len() == level, "exactly `level` frames left");
            kani::cover!(level == 1, "unwound to the bottom frame");
            kani::cover!(level == depth, "nothing to unwind");
        }
    };
}
//@ tier=quick cap=900 funcs=reset_stack,StackFrame::exit_scope bound=stacktrace_stubbed;1_frame_above_the_bottom;any_level_le_depth;no_locked_extern_frame
reset_stack_depth!(c06_reset_stack_1, 1);
//@ tier=quick cap=900 funcs=reset_stack,StackFrame::exit_scope bound=stacktrace_stubbed;2_frames_above_the_bottom;any_level_le_depth;no_locked_extern_frame
reset_stack_depth!(c06_reset_stack_2, 2);
//@ tier=thorough cap=1800 mem=20 funcs=reset_stack,StackFrame::exit_scope bound=stacktrace_stubbed;3_frames_above_the_bottom;any_level_le_depth;no_locked_extern_frame
reset_stack_depth!(c06_reset_stack_3, 3);

//@ tier=quick cap=900
#[kani::proof]
#[kani::unwind(5)]
#[kani::stub(rstd::fmt::format, fmt_stub)]
fn c06_unroot_canary() {
    unroot_one(Value::from(Float(f64::from_bits(kani::any()))), true);
}
