//@@ append-to: vm/src/thread.rs
//! C05, root enumeration across the thread tree: when a thread collects, `Roots::mark_child_roots`
//! must visit **every** descendant thread (children, grandchildren, ...) exactly once -- it locks
//! the descendant's context, traces its roots into the collecting `Gc` and returns the lock so that
//! `CollectScope::scope` sweeps that descendant's heap afterwards.  A descendant that is traced
//! (mark bits set) but not returned is never swept: its objects keep stale mark bits and its own
//! next collection frees values that are still reachable.
//!
//! The tree is built from real `Thread` values allocated by the real `Gc::alloc` (a collecting
//! thread marks thread objects through their GC headers), linked through the real `child_threads`
//! slabs; only `global_state` is an uninitialised allocation (never read: the collecting `Gc` is not
//! the root generation).  Stub: `Gc::get_type_info` (TypeInfo interning cache), as in the C05
//! mark-phase harnesses.
#![allow(unused_imports, dead_code, non_snake_case, unused_unsafe, unused_variables, unused_mut)]
use super::*;
use crate::gc::Move;
use crate::real_std as rstd;
use rstd::mem::{ManuallyDrop, MaybeUninit};

fn fmt_stub(_: rstd::fmt::Arguments<'_>) -> rstd::string::String {
    rstd::string::String::new()
}

fn fake_global() -> &'static ManuallyDrop<Arc<GlobalVmState>> {
    let a: Arc<MaybeUninit<GlobalVmState>> = Arc::new_uninit();
    let a: Arc<GlobalVmState> = unsafe { a.assume_init() };
    Box::leak(Box::new(ManuallyDrop::new(a)))
}

/// a thread object on the heap of `owner`, registered as a child of `parent` (if any)
fn spawn(
    owner: &mut Gc,
    global: &Arc<GlobalVmState>,
    parent: Option<&GcPtr<Thread>>,
    generation: Generation,
) -> GcPtr<Thread> {
    let t = Thread {
        global_state: unsafe { rstd::ptr::read(global) },
        parent: parent.map(|p| unsafe { p.clone_unrooted() }),
        rooted_values: RwLock::new(Vec::new()),
        child_threads: Default::default(),
        thread_index: usize::MAX,
        context: Mutex::new(Context::new(Gc::new(generation, usize::MAX))),
        interrupt: AtomicBool::new(false),
    };
    let r = ManuallyDrop::new(owner.alloc(Move(t)));
    let ptr: GcPtr<Thread> = match &*r {
        Ok(p) => unsafe { p.clone_unrooted() },
        Err(_) => {
            kani::assume(false);
            unreachable!()
        }
    };
    if let Some(p) = parent {
        let mut slab = ManuallyDrop::new(p.child_threads.write().unwrap());
        slab.insert(unsafe { ptr.clone_unrooted() });
        unsafe { ManuallyDrop::drop(&mut slab) }; // release the lock (a guard has no heap drop glue)
    }
    ptr
}

fn same(a: &GcPtr<Thread>, b: &GcPtr<Thread>) -> bool {
    &**a as *const Thread == &**b as *const Thread
}

/// root -> a -> b, optionally a second child c of root: after `mark_child_roots` from root every
/// descendant is locked exactly once.
fn descendants(with_c: bool, canary: bool) {
    let g = fake_global();
    let g0 = Generation::default();
    // heap that owns the thread objects (in the VM: the parent thread's heap / the global heap)
    let mut owner = ManuallyDrop::new(Gc::new(g0, usize::MAX));
    let root = spawn(&mut owner, g, None, g0.next());
    let a = spawn(&mut owner, g, Some(&root), g0.next().next());
    let b = spawn(&mut owner, g, Some(&a), g0.next().next().next());
    let c = if with_c { Some(spawn(&mut owner, g, Some(&root), g0.next().next())) } else { None };

    let mut guard = ManuallyDrop::new(root.context.lock().unwrap());
    let ctx: &mut Context = &mut **guard;
    let (gc, stack) = (&mut ctx.gc, &ctx.stack);
    let roots = Roots { vm: &root, stack };
    let locks = ManuallyDrop::new(unsafe { roots.mark_child_roots(gc) });

    let n = locks.len();
    let has = |t: &GcPtr<Thread>| {
        (n > 0 && same(&locks[0].2, t)) as usize
            + (n > 1 && same(&locks[1].2, t)) as usize
            + (n > 2 && same(&locks[2].2, t)) as usize
            + (n > 3 && same(&locks[3].2, t)) as usize
    };
    assert!(has(&a) == 1, "the child is locked (and will be swept) exactly once");
    assert!(has(&b) == 1, "the grandchild is locked (and will be swept) exactly once");
    if let Some(c) = &c {
        assert!(has(c) == 1, "the second child is locked exactly once");
    }
    assert!(has(&root) == 0, "the collecting thread itself is not re-locked");
    assert!(n == if with_c { 3 } else { 2 }, "nothing else is locked");
    kani::cover!(true, "descendants enumerated");
    if canary {
        assert!(false, "canary");
    }
}

//@ tier=thorough cap=3000 mem=20 funcs=Roots::mark_child_roots,Roots::trace,Thread::trace_fields_except_stack,Thread::trace,Gc::mark bound=chain_root_child_grandchild
#[kani::proof]
#[kani::unwind(5)]
#[kani::stub(rstd::fmt::format, fmt_stub)]
#[kani::stub(crate::gc::Gc::get_type_info, crate::gc::__verif_common__vm_gc::type_info_stub)]
fn c05_child_roots_chain() {
    descendants(false, false);
}

//@ tier=thorough cap=3000 mem=30 funcs=Roots::mark_child_roots,Roots::trace,Thread::trace_fields_except_stack,Thread::trace,Gc::mark bound=root_with_two_children_one_grandchild
#[kani::proof]
#[kani::unwind(6)]
#[kani::stub(rstd::fmt::format, fmt_stub)]
#[kani::stub(crate::gc::Gc::get_type_info, crate::gc::__verif_common__vm_gc::type_info_stub)]
fn c05_child_roots_tree() {
    descendants(true, false);
}

//@ tier=thorough cap=3000 mem=20
#[kani::proof]
#[kani::unwind(5)]
#[kani::stub(rstd::fmt::format, fmt_stub)]
#[kani::stub(crate::gc::Gc::get_type_info, crate::gc::__verif_common__vm_gc::type_info_stub)]
fn c05_child_roots_canary() {
    descendants(false, true);
}
