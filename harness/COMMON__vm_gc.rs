//@@ append-to: vm/src/gc.rs
//! Shared by the C05, C07 and C13 harnesses: the stub for `Gc::get_type_info`.
//!
//! `get_type_info` interns one `TypeInfo` per allocated type in a hashbrown map keyed by `TypeId`
//! / field names; it is a cache (two inserts alone exhaust CBMC's memory) and not the subject of
//! any property.  The stub returns a fresh leaked `TypeInfo` with the same `drop` function and the
//! collector's generation -- the two fields the collector reads.
#![allow(unused_imports, dead_code, non_snake_case, unused_unsafe, unused_variables, unused_mut)]
use super::*;
use crate::real_std as rstd;
use rstd::mem::ManuallyDrop;

pub(crate) fn type_info_stub(
    gc: &mut Gc,
    _tag: Option<&InternedStr>,
    _fields: Option<&[InternedStr]>,
    _type_id: TypeId,
    drop: unsafe fn(*mut ()),
) -> *const TypeInfo {
    let b: &'static mut ManuallyDrop<TypeInfo> = Box::leak(Box::new(ManuallyDrop::new(TypeInfo {
        drop,
        generation: gc.generation,
        tag: None,
        fields: FnvMap::default(),
        fields_key: Arc::from(Vec::new()),
    })));
    &**b as *const TypeInfo
}


/// mark bit of a heap object, for harnesses that live in other modules (`header` is private to gc.rs)
pub(crate) fn is_marked<T: ?Sized>(p: &GcPtr<T>) -> bool {
    p.header().marked.get()
}

/// `Generation`'s field is private to gc.rs
pub(crate) fn generation_of(g: i32) -> Generation {
    Generation(g)
}
pub(crate) fn generation_number(g: Generation) -> i32 {
    g.0
}
