//@@ append-to: vm/src/gc.rs
//! C13 harnesses living in vm/src/gc.rs (child module: sees private items).
#![allow(unused_imports, dead_code, non_snake_case)]
use super::*;
use crate::real_std as rstd;

fn fmt_stub(_: rstd::fmt::Arguments<'_>) -> String {
    String::new()
}

// ---------------------------------------------------------------------------------------------
// C13: generation arithmetic
// ---------------------------------------------------------------------------------------------

/// For all i32 pairs: the share relation is exactly "older-or-equal", the parent relation is
/// exactly "strictly older", the two agree (`a can contain b` <=> not `a is_parent_of b`... no:
/// can_contain(a,b) <=> b<=a ; is_parent_of(a,b) <=> a<b ; so can_contain(a,b) <=> !is_parent_of(a,b)).
//@ tier=quick cap=60 funcs=Generation::can_contain_values_from,Generation::is_parent_of,Generation::disjoint,Generation::is_root
//@ bound=all_i32_pairs
#[kani::proof]
fn c13_generation_relations() {
    let a = Generation(kani::any());
    let b = Generation(kani::any());
    assert_eq!(a.can_contain_values_from(b), b.0 <= a.0);
    assert_eq!(a.is_parent_of(b), a.0 < b.0);
    assert_eq!(a.can_contain_values_from(b), !a.is_parent_of(b));
    // the disjoint generation can hold no value of any real heap (real heaps have generation >= 0)
    if b.0 >= 0 {
        assert!(!Generation::disjoint().can_contain_values_from(b));
    }
    assert_eq!(a.is_root(), a.0 == 0);
    kani::cover!(a.can_contain_values_from(b));
    kani::cover!(!a.can_contain_values_from(b));
}

/// `next` is strictly younger than every generation that may share with its parent.
//@ tier=quick cap=60 funcs=Generation::next bound=all_i32
#[kani::proof]
fn c13_generation_next() {
    let a = Generation(kani::any());
    kani::assume(a.0 >= 0 && a.0 < i32::MAX);
    let n = a.next();
    assert!(n.0 == a.0 + 1);
    assert!(a.is_parent_of(n));
    assert!(n.can_contain_values_from(a));
    assert!(!a.can_contain_values_from(n));
    kani::cover!(n.0 == 1);
}

//@ tier=quick cap=60
#[kani::proof]
fn c13_generation_canary() {
    let a = Generation(kani::any());
    let b = Generation(kani::any());
    kani::assume(a.0 >= 0 && b.0 >= 0);
    let _ = a.can_contain_values_from(b);
    assert!(false, "canary");
}
