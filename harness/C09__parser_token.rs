//@@ append-to: parser/src/token.rs
//! C09 kernel: one step of the lexer (`Tokenizer::next`) from a fresh tokenizer over an arbitrary
//! short text.  The tokenizer's whole state is (remaining suffix, location); a step that ends on a
//! character boundary re-establishes "fresh tokenizer over valid UTF-8", so one step from every
//! text covers every later step.
//!
//! Checked: no panic (`expect("UTF-8 string")`, slicing off a boundary, `unwrap`, arithmetic);
//! the token or error span lies inside the input on character boundaries; every recorded error
//! span does too; the tokenizer stops on a character boundary and makes progress.
//!
//! Fixed-layout inputs (DESIGN.md rule 6): the byte array is an array literal, multi-byte
//! characters are built from range-assumed bytes, one harness per width.
#![allow(unused_imports, dead_code, non_snake_case, unused_unsafe, unused_variables, unused_mut)]
use super::*;
use std::mem::ManuallyDrop;
use crate::base::pos::Span;

fn ascii() -> u8 {
    let b: u8 = kani::any();
    kani::assume(b < 0x80);
    b
}
fn cont() -> u8 {
    let b: u8 = kani::any();
    kani::assume(b >= 0x80 && b <= 0xBF);
    b
}
fn lead2() -> u8 {
    let b: u8 = kani::any();
    kani::assume(b >= 0xC2 && b <= 0xDF);
    b
}
/// (lead, first continuation) of a three byte character
fn lead3() -> (u8, u8) {
    let l: u8 = kani::any();
    kani::assume(l >= 0xE0 && l <= 0xEF);
    let c = cont();
    kani::assume(l != 0xE0 || c >= 0xA0);
    kani::assume(l != 0xED || c <= 0x9F);
    (l, c)
}
/// (lead, first continuation) of a four byte character
fn lead4() -> (u8, u8) {
    let l: u8 = kani::any();
    kani::assume(l >= 0xF0 && l <= 0xF4);
    let c = cont();
    kani::assume(l != 0xF0 || c >= 0x90);
    kani::assume(l != 0xF4 || c <= 0x8F);
    (l, c)
}

/// `mask` has bit i set iff byte offset i is a character boundary of the input (known from the
/// fixed layout, so the check is pure arithmetic)
fn in_text(len: usize, mask: u32, p: BytePos) -> bool {
    let i = p.to_usize();
    i >= 1 && i <= len + 1 && (mask >> (i - 1)) & 1 == 1
}

fn span_ok(len: usize, mask: u32, s: &Span<Location>) -> bool {
    in_text(len, mask, s.start().absolute) && in_text(len, mask, s.end().absolute) && s.start().absolute <= s.end().absolute
}

fn lex_step(input: &'static str, mask: u32, canary: bool) {
    let len = input.len();
    let mut t = ManuallyDrop::new(Tokenizer::new(input));
    let r = ManuallyDrop::new(t.next());
    match &*r {
        Some(Ok(tok)) => {
            assert!(span_ok(len, mask, &tok.span), "token span inside the input on char boundaries");
            kani::cover!(true, "token");
        }
        Some(Err(e)) => {
            assert!(span_ok(len, mask, &e.span), "error span inside the input on char boundaries");
            kani::cover!(true, "hard error");
        }
        None => assert!(false, "the tokenizer always yields (EOF token at the end)"),
    }
    // recovered errors
    let n = t.errors.len();
    if n > 0 { assert!(span_ok(len, mask, &t.errors[0].span), "recorded error span"); }
    if n > 1 { assert!(span_ok(len, mask, &t.errors[1].span), "recorded error span"); }
    if n > 2 { assert!(span_ok(len, mask, &t.errors[2].span), "recorded error span"); }
    // the tokenizer stops on a character boundary ...
    let rest = t.chars.chars.as_str_suffix().len();
    assert!(rest <= len);
    assert!((mask >> (len - rest)) & 1 == 1, "tokenizer stops on a char boundary");
    // ... and its location agrees with the bytes consumed
    assert!(t.chars.location.absolute.to_usize() == 1 + len - rest, "location tracks consumed bytes");
    // progress unless the input is exhausted
    if let Some(Ok(tok)) = &*r {
        if !matches!(tok.value, Token::EOF) {
            assert!(rest < len, "a token consumes input");
        }
    }
    if canary {
        assert!(false, "canary");
    }
}

macro_rules! text {
    ($($b: expr),*) => {{
        let buf: &'static mut [u8] = Box::leak(Box::new([$($b),*]));
        let s: &'static str = unsafe { std::str::from_utf8_unchecked(buf) };
        s
    }};
}

/// boundary mask of a text made of characters of the given encoded widths
const fn mask_of(widths: &[u32]) -> u32 {
    let mut m = 1u32;
    let mut at = 0u32;
    let mut i = 0;
    while i < widths.len() {
        at += widths[i];
        m |= 1 << at;
        i += 1;
    }
    m
}

macro_rules! lex {
    ($name: ident, $unwind: literal, [$($w: literal),*], $body: block) => {
        #[kani::proof]
        #[kani::unwind($unwind)]
        fn $name() {
            const MASK: u32 = mask_of(&[$($w),*]);
            let input: &'static str = $body;
            lex_step(input, MASK, false);
        }
    };
}

// ---- any first character (covers identifiers, digits, operators, delimiters, whitespace and the
// ---- "unexpected character" path), followed by two arbitrary ASCII bytes
//@ tier=quick cap=900 funcs=Tokenizer::next,Tokenizer::identifier,Tokenizer::operator,Tokenizer::numeric_literal,CharLocations::next,Location::shift bound=3_arbitrary_ASCII_bytes_first_not_digit_or_minus
lex!(c09_tok_ascii3, 8, [1, 1, 1], {
    // numeric literals (float parsing of symbolic digits) have their own harness
    let a = ascii();
    kani::assume(!(a >= b'0' && a <= b'9') && a != b'-');
    text![a, ascii(), ascii()]
});
//@ tier=thorough cap=1800 mem=14 funcs=Tokenizer::numeric_literal,i64_from_hex bound=digit_or_minus_then_3_arbitrary_ASCII_bytes
lex!(c09_tok_num, 8, [1, 1, 1, 1], {
    let a = ascii();
    kani::assume((a >= b'0' && a <= b'9') || a == b'-');
    text![a, ascii(), ascii(), ascii()]
});
//@ tier=quick cap=900 funcs=Tokenizer::next,Tokenizer::skip_char,StrSuffix::restore_char bound=any_2_byte_char_then_2_ASCII_bytes
lex!(c09_tok_first_w2, 8, [2, 1, 1], { text![lead2(), cont(), ascii(), ascii()] });
//@ tier=quick cap=900 funcs=Tokenizer::next,StrSuffix::restore_char bound=any_3_byte_char_then_1_ASCII_byte
lex!(c09_tok_first_w3, 8, [3, 1], { let (l, c) = lead3(); text![l, c, cont(), ascii()] });
//@ tier=thorough cap=1800 funcs=Tokenizer::next,StrSuffix::restore_char bound=any_4_byte_char_then_1_ASCII_byte
lex!(c09_tok_first_w4, 8, [4, 1], { let (l, c) = lead4(); text![l, c, cont(), cont(), ascii()] });
//@ tier=thorough cap=1800 funcs=Tokenizer::next bound=ASCII_byte_then_any_2_byte_char_then_ASCII
lex!(c09_tok_second_w2, 8, [1, 2, 1], { text![ascii(), lead2(), cont(), ascii()] });
//@ tier=thorough cap=1800 funcs=Tokenizer::next bound=ASCII_byte_then_any_3_byte_char_then_ASCII
lex!(c09_tok_second_w3, 8, [1, 3, 1], { let (l, c) = lead3(); text![ascii(), l, c, cont(), ascii()] });

// ---- character literals
//@ tier=quick cap=900 funcs=Tokenizer::char_literal,Tokenizer::escape_code bound=quote_then_3_arbitrary_ASCII_bytes
lex!(c09_tok_char_ascii, 8, [1, 1, 1, 1], { text![b'\'', ascii(), ascii(), ascii()] });
//@ tier=quick cap=900 funcs=Tokenizer::char_literal,StrSuffix::restore_char bound=quote_then_any_2_byte_char_then_ASCII
lex!(c09_tok_char_w2, 8, [1, 2, 1], { text![b'\'', lead2(), cont(), ascii()] });
//@ tier=quick cap=900 funcs=Tokenizer::char_literal,StrSuffix::restore_char bound=quote_then_any_3_byte_char_then_ASCII
lex!(c09_tok_char_w3, 8, [1, 3, 1], { let (l, c) = lead3(); text![b'\'', l, c, cont(), ascii()] });
//@ tier=thorough cap=1800 funcs=Tokenizer::char_literal,StrSuffix::restore_char bound=quote_then_any_4_byte_char_then_ASCII
lex!(c09_tok_char_w4, 8, [1, 4, 1], { let (l, c) = lead4(); text![b'\'', l, c, cont(), cont(), ascii()] });
//@ tier=thorough cap=1800 funcs=Tokenizer::char_literal bound=quote_ASCII_then_any_2_byte_char
lex!(c09_tok_char_then_w2, 8, [1, 1, 2], { text![b'\'', ascii(), lead2(), cont()] });
//@ tier=thorough cap=1800 funcs=Tokenizer::char_literal,Tokenizer::escape_code bound=quote_backslash_then_any_2_byte_char_then_ASCII
lex!(c09_tok_char_escape_w2, 8, [1, 1, 2, 1], { text![b'\'', b'\\', lead2(), cont(), ascii()] });
//@ tier=thorough cap=1800 funcs=Tokenizer::char_literal,Tokenizer::escape_code bound=quote_backslash_then_any_3_byte_char_then_ASCII
lex!(c09_tok_char_escape_w3, 8, [1, 1, 3, 1], { let (l, c) = lead3(); text![b'\'', b'\\', l, c, cont(), ascii()] });

// ---- string literals
//@ tier=quick cap=900 funcs=Tokenizer::string_literal,Tokenizer::escape_code,Tokenizer::take_until,Tokenizer::slice bound=dquote_then_3_arbitrary_ASCII_bytes
lex!(c09_tok_str_ascii, 8, [1, 1, 1, 1], { text![b'"', ascii(), ascii(), ascii()] });
//@ tier=quick cap=900 funcs=Tokenizer::string_literal,Tokenizer::escape_code,Tokenizer::slice bound=dquote_backslash_then_any_2_byte_char_then_ASCII
lex!(c09_tok_str_escape_w2, 8, [1, 1, 2, 1], { text![b'"', b'\\', lead2(), cont(), ascii()] });
//@ tier=thorough cap=1800 funcs=Tokenizer::string_literal,Tokenizer::escape_code,Tokenizer::slice bound=dquote_backslash_then_any_3_byte_char_then_ASCII
lex!(c09_tok_str_escape_w3, 8, [1, 1, 3, 1], { let (l, c) = lead3(); text![b'"', b'\\', l, c, cont(), ascii()] });
//@ tier=thorough cap=1800 funcs=Tokenizer::string_literal bound=dquote_then_any_2_byte_char_then_ASCII
lex!(c09_tok_str_w2, 8, [1, 2, 1], { text![b'"', lead2(), cont(), ascii()] });

// ---- raw strings and comments
//@ tier=thorough cap=1800 funcs=Tokenizer::raw_string_literal bound=r_then_3_arbitrary_ASCII_bytes
lex!(c09_tok_raw_ascii, 8, [1, 1, 1, 1], { text![b'r', ascii(), ascii(), ascii()] });
//@ tier=thorough cap=1800 funcs=Tokenizer::line_comment,Tokenizer::block_comment bound=slash_then_3_arbitrary_ASCII_bytes
lex!(c09_tok_slash_ascii, 8, [1, 1, 1, 1], { text![b'/', ascii(), ascii(), ascii()] });
//@ tier=thorough cap=1800 funcs=Tokenizer::line_comment,Tokenizer::block_comment bound=slash_ASCII_then_any_2_byte_char_then_ASCII
lex!(c09_tok_slash_w2, 8, [1, 1, 2, 1], { text![b'/', ascii(), lead2(), cont(), ascii()] });
//@ tier=thorough cap=1800 funcs=Tokenizer::shebang_line bound=hash_then_3_arbitrary_ASCII_bytes
lex!(c09_tok_hash_ascii, 8, [1, 1, 1, 1], { text![b'#', ascii(), ascii(), ascii()] });

//@ tier=quick cap=900
#[kani::proof]
#[kani::unwind(8)]
fn c09_tok_canary() {
    lex_step(text![b'\'', ascii(), ascii(), ascii()], 0b11111, true);
}
