//@@ append-to: parser/src/token.rs
//! C09 kernel: one step of the lexer (`Tokenizer::next`) from a fresh tokenizer over an arbitrary
//! short text.  The tokenizer's whole state is (remaining suffix, location); a step that ends on a
//! character boundary re-establishes "fresh tokenizer over valid UTF-8", so one step from every
//! text covers every later step.
//!
//! Checked: no panic (`expect("UTF-8 string")`, slicing off a boundary, `unwrap`, arithmetic);
//! the token or error span lies inside the input on character boundaries; every recorded error
//! span does too; the tokenizer stops on a character boundary and makes progress.
//!
//! Fixed-layout inputs (DESIGN.md rule 6): the byte array is an array literal, multi-byte
//! characters are built from range-assumed bytes, one harness per width.
#![allow(unused_imports, dead_code, non_snake_case, unused_unsafe, unused_variables, unused_mut)]
use super::*;
use std::mem::ManuallyDrop;
use crate::base::pos::Span;

fn ascii() -> u8 {
    let b: u8 = kani::any();
    kani::assume(b < 0x80);
    b
}
fn cont() -> u8 {
    let b: u8 = kani::any();
    kani::assume(b >= 0x80 && b <= 0xBF);
    b
}
fn lead2() -> u8 {
    let b: u8 = kani::any();
    kani::assume(b >= 0xC2 && b <= 0xDF);
    b
}
/// (lead, first continuation) of a three byte character
fn lead3() -> (u8, u8) {
    let l: u8 = kani::any();
    kani::assume(l >= 0xE0 && l <= 0xEF);
    let c = cont();
    kani::assume(l != 0xE0 || c >= 0xA0);
    kani::assume(l != 0xED || c <= 0x9F);
    (l, c)
}
/// (lead, first continuation) of a four byte character
fn lead4() -> (u8, u8) {
    let l: u8 = kani::any();
    kani::assume(l >= 0xF0 && l <= 0xF4);
    let c = cont();
    kani::assume(l != 0xF0 || c >= 0x90);
    kani::assume(l != 0xF4 || c <= 0x8F);
    (l, c)
}

/// `mask` has bit i set iff byte offset i is a character boundary of the input (known from the
/// fixed layout, so the check is pure arithmetic)
fn in_text(len: usize, mask: u32, p: BytePos) -> bool {
    let i = p.to_usize();
    i >= 1 && i <= len + 1 && (mask >> (i - 1)) & 1 == 1
}

fn span_ok(len: usize, mask: u32, s: &Span<Location>) -> bool {
    in_text(len, mask, s.start().absolute) && in_text(len, mask, s.end().absolute) && s.start().absolute <= s.end().absolute
}

fn lex_step(input: &'static str, mask: u32, canary: bool) {
    let len = input.len();
    let mut t = ManuallyDrop::new(Tokenizer::new(input));
    let r = ManuallyDrop::new(t.next());
    match &*r {
        Some(Ok(tok)) => {
            assert!(span_ok(len, mask, &tok.span), "token span inside the input on char boundaries");
        }
        Some(Err(e)) => {
            assert!(span_ok(len, mask, &e.span), "error span inside the input on char boundaries");
        }
        None => assert!(false, "the tokenizer always yields (EOF token at the end)"),
    }
    // recovered errors
    let n = t.errors.len();
    if n > 0 { assert!(span_ok(len, mask, &t.errors[0].span), "recorded error span"); }
    if n > 1 { assert!(span_ok(len, mask, &t.errors[1].span), "recorded error span"); }
    if n > 2 { assert!(span_ok(len, mask, &t.errors[2].span), "recorded error span"); }
    // the tokenizer stops on a character boundary ...
    let rest = t.chars.chars.as_str_suffix().len();
    assert!(rest <= len);
    assert!((mask >> (len - rest)) & 1 == 1, "tokenizer stops on a char boundary");
    // ... and its location agrees with the bytes consumed
    assert!(t.chars.location.absolute.to_usize() == 1 + len - rest, "location tracks consumed bytes");
    // progress unless the input is exhausted
    if let Some(Ok(tok)) = &*r {
        if !matches!(tok.value, Token::EOF) {
            assert!(rest < len, "a token consumes input");
        }
    }
    kani::cover!(true, "step completed");
    if canary {
        assert!(false, "canary");
    }
}

macro_rules! text {
    ($($b: expr),*) => {{
        let buf: &'static mut [u8] = Box::leak(Box::new([$($b),*]));
        let s: &'static str = unsafe { std::str::from_utf8_unchecked(buf) };
        s
    }};
}

/// boundary mask of a text made of characters of the given encoded widths
const fn mask_of(widths: &[u32]) -> u32 {
    let mut m = 1u32;
    let mut at = 0u32;
    let mut i = 0;
    while i < widths.len() {
        at += widths[i];
        m |= 1 << at;
        i += 1;
    }
    m
}

macro_rules! lex {
    ($name: ident, $unwind: literal, [$($w: literal),*], $body: block) => {
        #[kani::proof]
        #[kani::unwind($unwind)]
        fn $name() {
            const MASK: u32 = mask_of(&[$($w),*]);
            let input: &'static str = $body;
            lex_step(input, MASK, false);
        }
    };
}

// ---- Structure.  `Tokenizer::next` is a dispatch loop over the first byte.  CBMC explores every
// ---- match arm whose guard it cannot refute syntactically, in every unwinding of that loop, so a
// ---- SYMBOLIC first byte costs (#iterations x all scanners): measured, no class-level harness
// ---- (delimiters, identifier starts, operator bytes, any 2/3/4-byte lead) finished in 20 min or
// ---- under 15 GB, not even with the nine scanner methods stubbed out.  Every harness below
// ---- therefore fixes the FIRST byte (one harness per scanner and representative first byte; the
// ---- dispatch then constant-folds to one arm) and leaves all following bytes symbolic.  Scanners
// ---- that `continue` the loop (plain comments, unexpected characters) are followed by a concrete
// ---- delimiter so that the second iteration folds too: after `continue` the tokenizer is a fresh
// ---- tokenizer on the remaining suffix, which the other harnesses cover.
// ---- Not decided (measured: no verdict in 10-30 min / 15 GB each; listed as uncovered in
// ---- DESIGN.md 6): the `#` arms (`shebang_line` ends in `str::trim_end`: reverse UTF-8 decoding
// ---- plus the Unicode white-space table); `numeric_literal` (`str::parse::<f64>`, i.e. dec2flt on
// ---- symbolic digits, is reachable from every digit and from `-`); string literals, comments
// ---- (`str::trim`) and the unexpected-character recovery in `next` itself: after `skip_char` the
// ---- read position depends on a decoded length, so the next byte -- and with it the whole
// ---- dispatch -- is symbolic again.
fn h_punct(b: u8) -> bool {
    matches!(b, b',' | b'\\' | b'{' | b'[' | b'(' | b'}' | b']' | b')' | b'?')
}

//@ tier=quick cap=900 mem=12 funcs=Tokenizer::next,Tokenizer::next_loc bound=comma_then_any_3_byte_char
lex!(c09_tok_punct_w3, 8, [1, 3], { let (l, c) = lead3(); text![b',', l, c, cont()] });

// ---- identifiers and keywords
macro_rules! ident {
    ($name: ident, $first: literal) => {
        lex!($name, 8, [1, 1, 1], { text![$first, ascii(), ascii()] });
    };
}
//@ tier=quick cap=900 mem=12 funcs=Tokenizer::identifier,Tokenizer::take_until,Tokenizer::slice bound=a_then_2_arbitrary_ASCII_bytes
ident!(c09_tok_ident_a, b'a');
//@ tier=quick cap=900 mem=12 funcs=Tokenizer::identifier,Tokenizer::take_until,Tokenizer::slice bound=i_then_2_arbitrary_ASCII_bytes(keywords_if_in)
ident!(c09_tok_ident_i, b'i');
//@ tier=thorough cap=1800 mem=15 funcs=Tokenizer::identifier bound=underscore_then_2_arbitrary_ASCII_bytes
ident!(c09_tok_ident_us, b'_');
//@ tier=thorough cap=1800 mem=15 funcs=Tokenizer::identifier bound=Z_then_2_arbitrary_ASCII_bytes
ident!(c09_tok_ident_Z, b'Z');
//@ tier=thorough cap=1800 mem=15 funcs=Tokenizer::identifier bound=d_then_2_arbitrary_ASCII_bytes(keyword_do)
ident!(c09_tok_ident_d, b'd');
//@ tier=thorough cap=1800 mem=15 funcs=Tokenizer::identifier bound=l_then_3_arbitrary_ASCII_bytes(keyword_let)
lex!(c09_tok_ident_l4, 8, [1, 1, 1, 1], { text![b'l', ascii(), ascii(), ascii()] });
//@ tier=quick cap=900 mem=12 funcs=Tokenizer::identifier,Tokenizer::take_until,Tokenizer::slice bound=a_ASCII_then_any_2_byte_char
lex!(c09_tok_ident_w2, 8, [1, 1, 2], { text![b'a', ascii(), lead2(), cont()] });
//@ tier=thorough cap=1800 mem=15 funcs=Tokenizer::identifier,Tokenizer::take_until,Tokenizer::slice bound=a_then_any_3_byte_char
lex!(c09_tok_ident_w3, 8, [1, 3], { let (l, c) = lead3(); text![b'a', l, c, cont()] });

// ---- operators
//@ tier=quick cap=900 mem=12 funcs=Tokenizer::operator,Tokenizer::take_until,Tokenizer::slice bound=plus_then_2_arbitrary_ASCII_bytes
lex!(c09_tok_op_plus, 8, [1, 1, 1], { text![b'+', ascii(), ascii()] });
//@ tier=thorough cap=1800 mem=15 funcs=Tokenizer::operator bound=dot_then_2_arbitrary_ASCII_bytes
lex!(c09_tok_op_dot, 8, [1, 1, 1], { text![b'.', ascii(), ascii()] });
//@ tier=thorough cap=1800 mem=15 funcs=Tokenizer::operator bound=plus_then_any_2_byte_char_then_ASCII
lex!(c09_tok_op_w2, 8, [1, 2, 1], { text![b'+', lead2(), cont(), ascii()] });

// ---- character literals
//@ tier=thorough cap=1800 mem=15 funcs=Tokenizer::char_literal,Tokenizer::escape_code bound=quote_then_3_arbitrary_ASCII_bytes
lex!(c09_tok_char_ascii, 8, [1, 1, 1, 1], { text![b'\'', ascii(), ascii(), ascii()] });
//@ tier=thorough cap=1800 mem=15 funcs=Tokenizer::char_literal,StrSuffix::restore_char bound=quote_then_any_2_byte_char_then_ASCII
lex!(c09_tok_char_w2, 8, [1, 2, 1], { text![b'\'', lead2(), cont(), ascii()] });
//@ tier=quick cap=900 mem=12 funcs=Tokenizer::char_literal,StrSuffix::restore_char bound=quote_then_any_3_byte_char_then_ASCII
lex!(c09_tok_char_w3, 8, [1, 3, 1], { let (l, c) = lead3(); text![b'\'', l, c, cont(), ascii()] });
//@ tier=thorough cap=1800 mem=15 funcs=Tokenizer::char_literal,StrSuffix::restore_char,StrSuffix::bytes_prefix bound=quote_then_any_4_byte_char_then_ASCII
lex!(c09_tok_char_w4, 8, [1, 4, 1], { let (l, c) = lead4(); text![b'\'', l, c, cont(), cont(), ascii()] });
//@ tier=thorough cap=1800 mem=15 funcs=Tokenizer::char_literal,StrSuffix::restore_char,StrSuffix::bytes_prefix bound=quote_ASCII_then_any_2_byte_char_at_the_end_of_the_text
lex!(c09_tok_char_then_w2, 8, [1, 1, 2], { text![b'\'', ascii(), lead2(), cont()] });
//@ tier=thorough cap=1800 mem=15 funcs=Tokenizer::char_literal,StrSuffix::restore_char,StrSuffix::bytes_prefix bound=quote_then_any_3_byte_char_at_the_end_of_the_text
lex!(c09_tok_char_w3_end, 8, [1, 3], { let (l, c) = lead3(); text![b'\'', l, c, cont()] });
//@ tier=thorough cap=1800 mem=15 funcs=Tokenizer::char_literal,Tokenizer::escape_code bound=quote_backslash_then_any_2_byte_char_then_ASCII
lex!(c09_tok_char_escape_w2, 8, [1, 1, 2, 1], { text![b'\'', b'\\', lead2(), cont(), ascii()] });
//@ tier=thorough cap=1800 mem=15 funcs=Tokenizer::char_literal,Tokenizer::escape_code bound=quote_backslash_then_any_3_byte_char_then_ASCII
lex!(c09_tok_char_escape_w3, 8, [1, 1, 3, 1], { let (l, c) = lead3(); text![b'\'', b'\\', l, c, cont(), ascii()] });


// ---- raw strings
//@ tier=quick cap=900 mem=12 funcs=Tokenizer::raw_string_literal bound=r_dquote_then_2_arbitrary_ASCII_bytes
lex!(c09_tok_raw_ascii, 8, [1, 1, 1, 1], { text![b'r', b'"', ascii(), ascii()] });

//@ tier=quick cap=900 mem=12
#[kani::proof]
#[kani::unwind(8)]
fn c09_tok_canary() {
    lex_step(text![b'a', ascii(), ascii()], 0b1111, true);
}

// ---------------------------------------------------------------------------------------------
// `unescape_string_literal`: called by the grammar on the text of every string literal token,
// including literals the lexer has already reported an invalid escape code for (error recovery
// keeps parsing).  Never panics; recognised escapes become their character, everything else is
// kept byte for byte.
// Written in the third session; NOT decided: 13-18 min each and then out of memory at 10 GB on
// 3-4 byte texts (`String::push_str` growth + `bytes().position` on a moving suffix).  Extended
// tier, not registered.
// ---------------------------------------------------------------------------------------------

fn unescaped(s: &'static str) -> ManuallyDrop<String> {
    ManuallyDrop::new(unescape_string_literal(s))
}

fn escape_of(e: u8) -> Option<u8> {
    match e {
        b'\'' => Some(b'\''),
        b'"' => Some(b'"'),
        b'\\' => Some(b'\\'),
        b'/' => Some(b'/'),
        b'n' => Some(b'\n'),
        b'r' => Some(b'\r'),
        b't' => Some(b'\t'),
        _ => None,
    }
}

//@ tier=extended cap=3000 mem=24 funcs=unescape_string_literal bound=backslash_then_any_ASCII_byte_then_any_ASCII_byte
#[kani::proof]
#[kani::unwind(6)]
fn c09_unescape_ascii() {
    let (e, a) = (ascii(), ascii());
    kani::assume(a != b'\\');
    let out = unescaped(text![b'\\', e, a]);
    let o = out.as_bytes();
    match escape_of(e) {
        Some(c) => assert!(o.len() == 2 && o[0] == c && o[1] == a, "a recognised escape becomes its character"),
        None => assert!(o.len() == 3 && o[0] == b'\\' && o[1] == e && o[2] == a, "an unknown escape is kept as written"),
    }
    kani::cover!(o.len() == 2, "escape recognised");
    kani::cover!(o.len() == 3, "escape unknown");
}

//@ tier=extended cap=3000 mem=24 funcs=unescape_string_literal bound=backslash_then_any_2_byte_char;ASCII_then_backslash_at_the_end
#[kani::proof]
#[kani::unwind(6)]
fn c09_unescape_w2_and_trailing() {
    let (l, c) = (lead2(), cont());
    let out = unescaped(text![b'\\', l, c]);
    let o = out.as_bytes();
    assert!(o.len() == 3 && o[0] == b'\\' && o[1] == l && o[2] == c, "backslash before a multi-byte character: kept as written");
    let a = ascii();
    kani::assume(a != b'\\');
    let out2 = unescaped(text![a, b'\\']);
    let o2 = out2.as_bytes();
    assert!(o2.len() == 2 && o2[0] == a && o2[1] == b'\\', "a backslash that ends the text is kept");
    kani::cover!(true, "both texts unescaped");
}

//@ tier=extended cap=3000 mem=24 funcs=unescape_string_literal bound=backslash_then_any_3_byte_char;two_backslashes_then_any_ASCII_byte
#[kani::proof]
#[kani::unwind(7)]
fn c09_unescape_w3_and_double() {
    let (l, c) = lead3();
    let d = cont();
    let out = unescaped(text![b'\\', l, c, d]);
    let o = out.as_bytes();
    assert!(o.len() == 4 && o[0] == b'\\' && o[1] == l && o[2] == c && o[3] == d, "backslash before a 3-byte character: kept as written");
    // `\\` is one backslash; the byte after it is not the start of another escape
    let e = ascii();
    kani::assume(e != b'\\');
    let out2 = unescaped(text![b'\\', b'\\', e]);
    let o2 = out2.as_bytes();
    assert!(o2.len() == 2 && o2[0] == b'\\' && o2[1] == e, "an escaped backslash does not start another escape");
    kani::cover!(true, "both texts unescaped");
}
