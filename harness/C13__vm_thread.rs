//@@ append-to: vm/src/thread.rs
//! C13: the share-or-copy decision `Thread::can_share_values_with` on a hand-built tree of
//! threads.  The threads are real `Thread` values (real parent links, real `Mutex<Context>` with a
//! real `Gc` of the right generation); only `global_state` is an uninitialised allocation, which
//! the decision compares by address and never reads.
#![allow(unused_imports, dead_code, non_snake_case, unused_unsafe, unused_variables, unused_mut)]
use super::*;
use crate::real_std as rstd;
use rstd::mem::{ManuallyDrop, MaybeUninit};

fn fmt_stub(_: rstd::fmt::Arguments<'_>) -> rstd::string::String {
    rstd::string::String::new()
}

use super::__verif_common__vm_thread::{fake_global, lock_context, mk_thread};

/// Tree:        root(0)                other_vm(0)
///             /      \
///           a(1)     c(1)
///            |
///           b(2)
/// index:  0 root, 1 a, 2 b, 3 c, 4 other_vm
fn tree() -> [&'static Thread; 5] {
    let g = fake_global();
    let g2 = fake_global();
    let g0 = Generation::default();
    let root = mk_thread(g, None, g0);
    let a = mk_thread(g, Some(root), g0.next());
    let b = mk_thread(g, Some(a), g0.next().next());
    let c = mk_thread(g, Some(root), g0.next());
    let other = mk_thread(g2, None, g0);
    [root, a, b, c, other]
}

/// ancestor-or-self relation of the tree above
fn related(i: usize, j: usize) -> bool {
    // parent index, usize::MAX = none
    let parent = [usize::MAX, 0, 1, 0, usize::MAX];
    let anc = |mut x: usize, y: usize| {
        let mut n = 0;
        while n < 4 {
            if x == y {
                return true;
            }
            if x == usize::MAX || parent[x] == usize::MAX {
                return false;
            }
            x = parent[x];
            n += 1;
        }
        false
    };
    anc(i, j) || anc(j, i)
}

fn decide(ts: &[&'static Thread; 5], i: usize, j: usize) -> bool {
    let me = ts[i];
    // as Thread::deep_clone_value does it: lock the receiving thread, hand its collector over
    let mut ctx = ManuallyDrop::new(me.context.lock().unwrap());
    me.can_share_values_with(&mut ctx.gc, ts[j])
}

//@ tier=quick cap=600 funcs=Thread::can_share_values_with,Generation::is_parent_of bound=tree_of_5_threads_depth_3_two_VMs;all_25_ordered_pairs
#[kani::proof]
#[kani::unwind(5)]
#[kani::stub(rstd::fmt::format, fmt_stub)]
fn c13_can_share_tree() {
    let ts = tree();
    let i: usize = kani::any();
    let j: usize = kani::any();
    kani::assume(i < 5 && j < 5);
    let got = decide(&ts, i, j);
    // values may be shared exactly along one root-to-leaf path of one VM
    assert!(got == related(i, j), "share iff ancestor-or-self (same VM)");
    kani::cover!(got && i != j, "shared with a relative");
    kani::cover!(!got && i != 4 && j != 4, "siblings or cousins: copy");
    kani::cover!(!got && (i == 4) != (j == 4), "different VM: copy");
}

//@ tier=quick cap=600 funcs=Thread::can_share_values_with bound=generation_numbers_any_nonneg_i32_on_a_fixed_tree_shape
#[kani::proof]
#[kani::unwind(5)]
#[kani::stub(rstd::fmt::format, fmt_stub)]
fn c13_can_share_generation_blind() {
    // Same shape, but the generation numbers of the two *unrelated* threads are arbitrary: the
    // decision must not be fooled by generation order alone (documented in gc.rs: equal or
    // ordered generations do not imply that values can be shared).
    let g = fake_global();
    let ga: i32 = kani::any();
    let gb: i32 = kani::any();
    kani::assume(ga >= 1 && gb >= 1);
    let root = mk_thread(g, None, Generation::default());
    let a = mk_thread(g, Some(root), unsafe { rstd::mem::transmute::<i32, Generation>(ga) });
    let b = mk_thread(g, Some(root), unsafe { rstd::mem::transmute::<i32, Generation>(gb) });
    let mut ctx = ManuallyDrop::new(a.context.lock().unwrap());
    assert!(!a.can_share_values_with(&mut ctx.gc, b), "siblings never share");
    kani::cover!(ga < gb);
    kani::cover!(ga > gb);
    kani::cover!(ga == gb);
}

//@ tier=quick cap=600
#[kani::proof]
#[kani::unwind(5)]
#[kani::stub(rstd::fmt::format, fmt_stub)]
fn c13_can_share_canary() {
    let ts = tree();
    let i: usize = kani::any();
    kani::assume(i < 5);
    let got = decide(&ts, i, 0);
    assert!(got == related(i, 0));
    assert!(false, "canary");
}
