//@@ append-to: vm/src/thread.rs
//! C01 (and the dynamic half of C07): one interpreter step of the real `ExecuteContext::execute_`
//! from an arbitrary frame, compared with a reference written from the instruction doc comments
//! in vm/src/types.rs and the documented strict semantics.
//!
//! Observation device: the byte code under test is `[I, PushInt(MARK), TestTag(0), Return]`.
//! `TestTag` on an `Int` returns an error *value* without touching the stack, so after the real
//! `execute_` has returned the harness reads the complete frame that `I` left behind (plus the
//! marker proving that `I` itself completed) straight from the `Stack` it owns.  `Return` and the frame exit are decided by their own harness.
//!
//! Environment (all part of the claim): real `Stack`; bottom frame `State::Unknown` holding one
//! symbolic caller local and the callee closure; callee frame entered through the real
//! `enter_scope`; closure, function and data objects laid out by hand in leaked boxes (the
//! interpreter never looks at a GC header on these paths); `&Thread` is uninitialised memory (any
//! read through it is flagged by CBMC); `format!` stubbed.
#![allow(unused_imports, dead_code, non_snake_case, unused_unsafe, unused_variables, unused_mut)]
use super::*;
use crate::real_std as rstd;
use crate::source_map::{LocalMap, SourceMap};
use crate::types::Instruction::*;
use crate::value::ValueRepr::{Byte, Float, Int, Tag};
use crate::value::{BytecodeFunction, ClosureData, DataStruct};
use rstd::mem::{ManuallyDrop, MaybeUninit};

fn fmt_stub(_: rstd::fmt::Arguments<'_>) -> rstd::string::String {
    rstd::string::String::new()
}

fn fake_thread() -> &'static Thread {
    let b: Box<MaybeUninit<Thread>> = Box::new(MaybeUninit::uninit());
    unsafe { &*(Box::leak(b).as_ptr()) }
}

/// observable shape of a scalar VM value
#[derive(Clone, Copy, PartialEq, Eq, Debug)]
enum V {
    I(VmInt),
    B(u8),
    F(u64),
    T(VmTag),
    D(usize),
    Other,
}

fn repr_of(v: V) -> ValueRepr {
    match v {
        V::I(i) => Int(i),
        V::B(b) => Byte(b),
        V::F(f) => Float(f64::from_bits(f)),
        V::T(t) => Tag(t),
        _ => unreachable!(),
    }
}

fn shape(v: &Value) -> V {
    match v.get_repr() {
        Int(i) => V::I(*i),
        Byte(b) => V::B(*b),
        Float(f) => V::F(f.to_bits()),
        Tag(t) => V::T(*t),
        ValueRepr::Data(d) => V::D(&**d as *const DataStruct as usize),
        _ => V::Other,
    }
}

fn any_scalar() -> V {
    // Int or Float: enough to tell slots apart without a four-way split on every slot.  The one
    // value excluded is the marker constant of the stop device (see `not_mark`).
    if kani::any() { V::I(not_mark(kani::any())) } else { V::F(kani::any()) }
}

/// Any `i64` but the marker: the harness recognises "the instruction completed" by the marker the
/// stop device pushes afterwards, so no symbolic slot or operand may look like it.
fn not_mark(x: VmInt) -> VmInt {
    kani::assume(x != MARK);
    x
}

fn function(instructions: Vec<Instruction>) -> GcPtr<BytecodeFunction> {
    let bf: &'static mut ManuallyDrop<BytecodeFunction> =
        Box::leak(Box::new(ManuallyDrop::new(BytecodeFunction {
            name: Symbol::from("f"),
            args: 0,
            max_stack_size: 8,
            instructions,
            inner_functions: vec![],
            strings: vec![],
            records: vec![],
            debug_info: crate::compiler::DebugInfo {
                source_map: SourceMap::new(),
                local_map: LocalMap::new(),
                upvars: vec![],
                source_name: rstd::string::String::new(),
            },
        })));
    unsafe { GcPtr::from_raw(&**bf as *const BytecodeFunction) }
}

/// hand-laid `ClosureData` (repr(C): function pointer, then `Array { len, [Value; 0] }`)
fn closure(f: &GcPtr<BytecodeFunction>, up0: Option<V>, up1: Option<V>) -> GcPtr<ClosureData> {
    unsafe {
        let raw: &'static mut [u64; 8] = Box::leak(Box::new([0u64; 8]));
        let cd = raw.as_mut_ptr() as *mut ClosureData;
        rstd::ptr::write(rstd::ptr::addr_of_mut!((*cd).function), f.unrooted());
        let n = up0.is_some() as usize + up1.is_some() as usize;
        (*cd).upvars.set_len(n);
        if let Some(v) = up0 {
            rstd::ptr::write((*cd).upvars.as_mut_ptr(), Value::from(repr_of(v)));
        }
        if let Some(v) = up1 {
            rstd::ptr::write((*cd).upvars.as_mut_ptr().add(1), Value::from(repr_of(v)));
        }
        GcPtr::from_raw(cd as *const ClosureData)
    }
}

/// hand-laid `DataStruct` (repr(C): tag: u32, then `Array { len, [Value; 0] }`) with <= 2 fields
fn data(tag: VmTag, f0: Option<V>, f1: Option<V>) -> GcPtr<DataStruct> {
    unsafe {
        let raw: &'static mut [u64; 8] = Box::leak(Box::new([0u64; 8]));
        let ds = raw.as_mut_ptr() as *mut DataStruct;
        rstd::ptr::write(ds as *mut VmTag, tag);
        let n = f0.is_some() as usize + f1.is_some() as usize;
        (*ds).fields.set_len(n);
        if let Some(v) = f0 {
            rstd::ptr::write((*ds).fields.as_mut_ptr(), Value::from(repr_of(v)));
        }
        if let Some(v) = f1 {
            rstd::ptr::write((*ds).fields.as_mut_ptr().add(1), Value::from(repr_of(v)));
        }
        GcPtr::from_raw(ds as *const DataStruct)
    }
}

#[derive(Clone, Copy, PartialEq, Eq, Debug)]
enum Outcome {
    /// returned to the caller frame, which now holds `[caller_local, result]`
    Returned(V),
    /// an error *value* (Err(..)) came back; `message` = it was `Error::Message`.  `frame` is the
    /// callee frame as left on the stack (up to 5 slots) and `len` its length.
    Failed { message: bool, frame: [V; 5], len: usize },
    Bad,
}

const MARK: VmInt = 0x5EED_0000_0000_0001;

/// Runs `code` in a fresh closure frame holding `slots` (at most 3) and reports what happened.
fn run(code: Vec<Instruction>, slots: &[ValueRepr], ups: (Option<V>, Option<V>)) -> Outcome {
    let f = function(code);
    let cl = closure(&f, ups.0, ups.1);
    let caller_local: VmInt = kani::any();
    let mut gc = ManuallyDrop::new(Gc::new(Generation::default(), usize::MAX));
    let mut stack = ManuallyDrop::new(Stack::new());
    let mut hook = ManuallyDrop::new(Hook {
        function: None,
        flags: HookFlags::empty(),
        previous_instruction_index: usize::MAX,
    });
    rstd::mem::forget(StackFrame::<State>::new_frame(&mut stack, 0, State::Unknown));
    stack.push(Int(caller_local));
    stack.push(ValueRepr::Closure(unsafe { cl.unrooted() }));
    let nslots = slots.len() as VmIndex;
    for s in slots {
        stack.push(Value::from_ref(s));
    }
    let frame = match StackFrame::<State>::current(&mut stack).enter_scope(
        nslots,
        &ClosureState { closure: unsafe { cl.unrooted() }, instruction_index: 0 },
    ) {
        Ok(f) => f,
        Err(_) => return Outcome::Bad,
    };
    let ctx = ExecuteContext {
        thread: fake_thread(),
        stack: frame,
        gc: &mut gc,
        hook: &mut hook,
        poll_fns: &[],
    };
    let r = ManuallyDrop::new(ctx.execute_());
    let (returned, message) = match &*r {
        Poll::Ready(Ok(Some(c))) => (true, false),
        Poll::Ready(Err(Error::Message(_))) => (false, true),
        Poll::Ready(Err(_)) => (false, false),
        _ => return Outcome::Bad,
    };
    // the borrow of `stack` by the result ends here; read the stack the harness owns
    let vals = stack.get_values();
    if vals.len() < 2 || shape(&vals[0]) != V::I(caller_local) {
        return Outcome::Bad;
    }
    if returned {
        // back in the caller frame: exactly [caller_local, result], one frame left
        if vals.len() != 2 || stack.get_frames().len() != 1 {
            return Outcome::Bad;
        }
        Outcome::Returned(shape(&vals[1]))
    } else {
        // the failing frame stays on the stack for the host to unwind (reset_stack)
        if stack.get_frames().len() != 2 || shape(&vals[1]) != V::Other {
            return Outcome::Bad;
        }
        let len = vals.len() - 2;
        // straight-line on purpose: harness code has no loops to unwind
        let at = |i: usize| if i < len { shape(&vals[2 + i]) } else { V::Other };
        let frame = [at(0), at(1), at(2), at(3), at(4)];
        Outcome::Failed { message, frame, len }
    }
}

/// What the frame must look like after the instruction under test.
struct Expect {
    /// `None`: the instruction must fail with an error value
    frame: Option<([V; 5], usize)>,
}

/// the two instructions that stop the interpreter with the frame intact
fn stop() -> [Instruction; 2] {
    [PushInt(MARK), TestTag(0)]
}

fn check_frame(out: Outcome, exp: &([V; 5], usize)) {
    let (vals, len) = exp;
    match out {
        Outcome::Failed { message, frame, len: got } => {
            assert!(message, "stop device reports Error::Message");
            assert!(got == *len + 1, "frame length after step");
            assert!(*len < 1 || frame[0] == vals[0], "frame slot 0 after step");
            assert!(*len < 2 || frame[1] == vals[1], "frame slot 1 after step");
            assert!(*len < 3 || frame[2] == vals[2], "frame slot 2 after step");
            assert!(*len < 4 || frame[3] == vals[3], "frame slot 3 after step");
            assert!(frame[*len] == V::I(MARK), "instruction completed");
        }
        _ => assert!(false, "interpreter did not stop at the stop device"),
    }
}

/// `[I, <stop>, Return]`: compare the whole frame after `I` with the expectation.
fn check_step(i: Instruction, slots: &[ValueRepr], ups: (Option<V>, Option<V>), exp: Expect) {
    let pre_len = slots.len() as i32;
    let st = stop();
    let out = run(vec![i, st[0], st[1], Return], slots, ups);
    match exp.frame {
        None => {
            match out {
                Outcome::Failed { message, frame, len } => {
                    assert!(message, "instruction must fail with Error::Message");
                    // had the instruction completed, the stop device would have pushed its marker
                    // on top before stopping; no other slot can hold that value (`not_mark`)
                    assert!(len <= 5 && (len == 0 || frame[len - 1] != V::I(MARK)), "must fail, not complete");
                }
                _ => assert!(false, "instruction must fail with an error value"),
            }
        }
        Some(e) => {
            // C07: the static stack model of the compiler agrees with the interpreter
            if !matches!(i, Split) {
                assert!(e.1 as i32 - pre_len == i.adjust(), "Instruction::adjust disagrees with the interpreter");
            }
            check_frame(out, &e);
        }
    }
    kani::cover!(true, "step checked");
}

fn pad(v: &[V]) -> ([V; 5], usize) {
    let at = |i: usize| if i < v.len() { v[i] } else { V::Other };
    ([at(0), at(1), at(2), at(3), at(4)], v.len())
}

macro_rules! step_harness {
    ($name: ident, $body: block) => {
        #[kani::proof]
        #[kani::unwind(4)]
        #[kani::stub(rstd::fmt::format, fmt_stub)]
        fn $name() $body
    };
    ($name: ident, unwind $n: literal, $body: block) => {
        #[kani::proof]
        #[kani::unwind($n)]
        #[kani::stub(rstd::fmt::format, fmt_stub)]
        fn $name() $body
    };
}

// ---------------------------------------------------------------------------------------------
// stack manipulation
// ---------------------------------------------------------------------------------------------

//@ tier=quick cap=600 mem=6 funcs=ExecuteContext::execute_,Stack::push,ProgramCounter,StackFrame::exit_scope,Stack::slide bound=frame_of_2_slots;operand_any_i64
step_harness!(c01_step_PushInt, {
    let (a, b, x) = (any_scalar(), any_scalar(), kani::any());
    check_step(PushInt(x), &[repr_of(a), repr_of(b)], (None, None), Expect { frame: Some(pad(&[a, b, V::I(x)])) });
});

//@ tier=thorough cap=1800 funcs=ExecuteContext::execute_ bound=frame_of_2_slots;operand_any_u8
step_harness!(c01_step_PushByte, {
    let (a, b, x) = (any_scalar(), any_scalar(), kani::any());
    check_step(PushByte(x), &[repr_of(a), repr_of(b)], (None, None), Expect { frame: Some(pad(&[a, b, V::B(x)])) });
});

//@ tier=thorough cap=1800 funcs=ExecuteContext::execute_ bound=frame_of_2_slots;operand_any_f64_bits
step_harness!(c01_step_PushFloat, {
    let (a, b) = (any_scalar(), any_scalar());
    let x: u64 = kani::any();
    check_step(
        PushFloat(f64::from_bits(x).into()),
        &[repr_of(a), repr_of(b)],
        (None, None),
        Expect { frame: Some(pad(&[a, b, V::F(x)])) },
    );
});

//@ tier=thorough cap=1800 funcs=ExecuteContext::execute_,StackFrame::get bound=frame_of_3_slots;index_lt_3
step_harness!(c01_step_Push, {
    let (a, b, c) = (any_scalar(), any_scalar(), any_scalar());
    let i: VmIndex = kani::any();
    kani::assume(i < 3);
    let v = [a, b, c][i as usize];
    check_step(Push(i), &[repr_of(a), repr_of(b), repr_of(c)], (None, None), Expect { frame: Some(pad(&[a, b, c, v])) });
});

//@ tier=quick cap=600 mem=6 funcs=ExecuteContext::execute_,StackFrame::get_upvar bound=2_upvars;frame_of_1_slot
step_harness!(c01_step_PushUpVar, {
    let (a, u0, u1) = (any_scalar(), any_scalar(), any_scalar());
    let i: VmIndex = kani::any();
    kani::assume(i < 2);
    let v = if i == 0 { u0 } else { u1 };
    check_step(PushUpVar(i), &[repr_of(a)], (Some(u0), Some(u1)), Expect { frame: Some(pad(&[a, v])) });
});

//@ tier=extended cap=1800 funcs=ExecuteContext::execute_,StackFrame::pop_many bound=frame_of_3_slots;n_le_2 mem=24
step_harness!(c01_step_Pop, {
    let (a, b, c) = (any_scalar(), any_scalar(), any_scalar());
    let n: VmIndex = kani::any();
    kani::assume(n <= 2);
    let e = if n == 0 { pad(&[a, b, c]) } else if n == 1 { pad(&[a, b]) } else { pad(&[a]) };
    check_step(Pop(n), &[repr_of(a), repr_of(b), repr_of(c)], (None, None), Expect { frame: Some(e) });
});

//@ tier=extended cap=1800 funcs=ExecuteContext::execute_,Stack::slide,Stack::copy_value bound=frame_of_3_slots;n_le_2 mem=24
step_harness!(c01_step_Slide, {
    let (a, b, c) = (any_scalar(), any_scalar(), any_scalar());
    let n: VmIndex = kani::any();
    kani::assume(n <= 2);
    // keeps the top, drops the n below it
    let e = if n == 0 { pad(&[a, b, c]) } else if n == 1 { pad(&[a, c]) } else { pad(&[c]) };
    check_step(Slide(n), &[repr_of(a), repr_of(b), repr_of(c)], (None, None), Expect { frame: Some(e) });
});

macro_rules! pop_slide_concrete {
    ($name: ident, $instr: ident, $n: literal, $exp: expr) => {
        step_harness!($name, {
            let (a, b, c) = (any_scalar(), any_scalar(), any_scalar());
            let e: &[V] = &($exp)(a, b, c);
            check_step($instr($n), &[repr_of(a), repr_of(b), repr_of(c)], (None, None), Expect { frame: Some(pad(e)) });
        });
    };
}
//@ tier=thorough cap=1800 funcs=ExecuteContext::execute_,StackFrame::pop_many bound=frame_of_3_slots;n=1 mem=24
pop_slide_concrete!(c01_step_Pop_1, Pop, 1, |a, b, c| [a, b]);
//@ tier=thorough cap=1800 funcs=ExecuteContext::execute_,StackFrame::pop_many bound=frame_of_3_slots;n=2 mem=24
pop_slide_concrete!(c01_step_Pop_2, Pop, 2, |a, b, c| [a]);
//@ tier=thorough cap=1800 funcs=ExecuteContext::execute_,Stack::slide,Stack::copy_value bound=frame_of_3_slots;n=1 mem=24
pop_slide_concrete!(c01_step_Slide_1, Slide, 1, |a, b, c| [a, c]);
//@ tier=thorough cap=1800 funcs=ExecuteContext::execute_,Stack::slide,Stack::copy_value bound=frame_of_3_slots;n=2 mem=24
pop_slide_concrete!(c01_step_Slide_2, Slide, 2, |a, b, c| [c]);

// ---------------------------------------------------------------------------------------------
// control flow
// ---------------------------------------------------------------------------------------------

//@ tier=extended cap=1800 funcs=ExecuteContext::execute_,ProgramCounter::jump bound=frame_of_2_slots mem=24
step_harness!(c01_step_Jump, unwind 5, {
    let (a, b) = (any_scalar(), any_scalar());
    let st = stop();
    // 0: Jump(3)  1: PushInt(111)  2: Return  3: PushInt(222)  4..5: stop  6: Return
    let out = run(
        vec![Jump(3), PushInt(111), Return, PushInt(222), st[0], st[1], Return],
        &[repr_of(a), repr_of(b)],
        (None, None),
    );
    assert!(Jump(3).adjust() == 0);
    check_frame(out, &pad(&[a, b, V::I(222)]));
    kani::cover!(true, "step completed");
});

//@ tier=extended cap=1800 funcs=ExecuteContext::execute_,ProgramCounter::jump,StackFrame::pop bound=frame_of_2_slots;condition_any_tag mem=24
step_harness!(c01_step_CJump, unwind 5, {
    let a = any_scalar();
    let t: VmTag = kani::any();
    let st = stop();
    // 0: CJump(5) 1: PushInt(111) 2..3: stop 4: Return 5: PushInt(222) 6..7: stop 8: Return
    let out = run(
        vec![CJump(5), PushInt(111), st[0], st[1], Return, PushInt(222), st[0], st[1], Return],
        &[repr_of(a), Tag(t)],
        (None, None),
    );
    // jumps iff the popped value is True (any tag but 0); the condition is popped either way
    let k = if t == 0 { 111 } else { 222 };
    assert!(CJump(5).adjust() == -1);
    check_frame(out, &pad(&[a, V::I(k)]));
    kani::cover!(t == 0, "fall through");
    kani::cover!(t != 0, "jump taken");
});

//@ tier=quick cap=600 mem=6 funcs=ExecuteContext::execute_,StackFrame::exit_scope,Stack::slide bound=frame_of_3_slots;returns_top
step_harness!(c01_step_Return, {
    let (a, b, c) = (any_scalar(), any_scalar(), any_scalar());
    let out = run(vec![Return], &[repr_of(a), repr_of(b), repr_of(c)], (None, None));
    assert!(out == Outcome::Returned(c));
    assert!(Return.adjust() == 0);
    kani::cover!(true, "returned");
});

// ---------------------------------------------------------------------------------------------
// data access
// ---------------------------------------------------------------------------------------------

//@ tier=quick cap=600 mem=6 funcs=ExecuteContext::execute_,DataStruct::tag bound=tag_value_any_u32;frame_of_2_slots
step_harness!(c01_step_TestTag_tag, {
    let a = any_scalar();
    let (t, want): (VmTag, VmTag) = (kani::any(), kani::any());
    let r = V::T(if t == want { 1 } else { 0 });
    check_step(TestTag(want), &[repr_of(a), Tag(t)], (None, None), Expect { frame: Some(pad(&[a, V::T(t), r])) });
});

//@ tier=thorough cap=1800 funcs=ExecuteContext::execute_,DataStruct::tag bound=data_with_1_field;tag_any_u32
step_harness!(c01_step_TestTag_data, {
    let a = any_scalar();
    let (t, want): (VmTag, VmTag) = (kani::any(), kani::any());
    let d = data(t, Some(any_scalar()), None);
    // the record bit is not part of the tag
    let r = V::T(if (t & !DataStruct::record_bit()) == want { 1 } else { 0 });
    let dv = V::D(&*d as *const DataStruct as usize);
    check_step(
        TestTag(want),
        &[repr_of(a), ValueRepr::Data(unsafe { d.unrooted() })],
        (None, None),
        Expect { frame: Some(pad(&[a, dv, r])) },
    );
});

//@ tier=quick cap=600 mem=6 funcs=ExecuteContext::execute_ bound=data_with_2_fields;offset_lt_2
step_harness!(c01_step_GetOffset, {
    let (a, f0, f1) = (any_scalar(), any_scalar(), any_scalar());
    let d = data(kani::any(), Some(f0), Some(f1));
    let i: VmIndex = kani::any();
    kani::assume(i < 2);
    let v = if i == 0 { f0 } else { f1 };
    check_step(
        GetOffset(i),
        &[repr_of(a), ValueRepr::Data(unsafe { d.unrooted() })],
        (None, None),
        Expect { frame: Some(pad(&[a, v])) },
    );
});

//@ tier=extended cap=1800 funcs=ExecuteContext::execute_,StackFrame::extend bound=data_with_2_fields mem=24
step_harness!(c01_step_Split_data, {
    let (a, f0, f1) = (any_scalar(), any_scalar(), any_scalar());
    let d = data(kani::any(), Some(f0), Some(f1));
    check_step(
        Split,
        &[repr_of(a), ValueRepr::Data(unsafe { d.unrooted() })],
        (None, None),
        Expect { frame: Some(pad(&[a, f0, f1])) },
    );
});

//@ tier=quick cap=600 mem=6 funcs=ExecuteContext::execute_ bound=zero_argument_variant
step_harness!(c01_step_Split_tag, {
    let a = any_scalar();
    check_step(Split, &[repr_of(a), Tag(kani::any())], (None, None), Expect { frame: Some(pad(&[a])) });
});

// ---------------------------------------------------------------------------------------------
// arithmetic and comparisons (documented: checked integer arithmetic, IEEE floats, tags 1/0)
// ---------------------------------------------------------------------------------------------

macro_rules! int_arith {
    ($name: ident, $instr: ident, $op: ident) => {
        step_harness!($name, {
            let s = any_scalar();
            let (a, b): (VmInt, VmInt) = (not_mark(kani::any()), not_mark(kani::any()));
            let exp = match a.$op(b) {
                Some(r) => Expect { frame: Some(pad(&[s, V::I(r)])) },
                None => Expect { frame: None },
            };
            check_step($instr, &[repr_of(s), Int(a), Int(b)], (None, None), exp);
        });
    };
}
//@ tier=thorough cap=1800 mem=24 funcs=ExecuteContext::execute_,binop_int,binop bound=operands_any_i64;frame_of_3_slots mem=24
int_arith!(c01_step_AddInt, AddInt, checked_add);
//@ tier=thorough cap=1800 funcs=ExecuteContext::execute_,binop_int,binop bound=operands_any_i64;frame_of_3_slots mem=24
int_arith!(c01_step_SubtractInt, SubtractInt, checked_sub);
//@ tier=extended cap=1800 funcs=ExecuteContext::execute_,binop_int,binop bound=operands_any_i64;frame_of_3_slots mem=24
int_arith!(c01_step_DivideInt, DivideInt, checked_div);

// Division with a CONCRETE divisor and any dividend: a symbolic 64-bit divider compared with a second,
// differently written one is a SAT-hard equivalence (measured on a seeded change that replaced
// `checked_div` by a zero test plus `wrapping_div`: out of memory, then no verdict in 15 min); with the
// divisor fixed the query is easy, and the three divisors are the three behaviours of the instruction:
// -1 (overflows for the minimum), 0 (error value), and an ordinary one (2: division by other
// constants, e.g. 7, is itself a hard multiplier-style circuit -- 870 s measured).
macro_rules! int_div_by {
    ($name: ident, $d: expr) => {
        step_harness!($name, {
            let s = any_scalar();
            let a: VmInt = not_mark(kani::any());
            let b: VmInt = $d;
            let exp = match a.checked_div(b) {
                Some(r) => Expect { frame: Some(pad(&[s, V::I(r)])) },
                None => Expect { frame: None },
            };
            check_step(DivideInt, &[repr_of(s), Int(a), Int(b)], (None, None), exp);
        });
    };
}
//@ tier=quick cap=1200 mem=24 funcs=ExecuteContext::execute_,binop_int,binop bound=dividend_any_i64;divisor_minus_1
int_div_by!(c01_step_DivideInt_by_m1, -1);
//@ tier=thorough cap=1800 mem=24 funcs=ExecuteContext::execute_,binop_int,binop bound=dividend_any_i64;divisor_0
int_div_by!(c01_step_DivideInt_by_0, 0);
//@ tier=thorough cap=1800 mem=24 funcs=ExecuteContext::execute_,binop_int,binop bound=dividend_any_i64;divisor_2
int_div_by!(c01_step_DivideInt_by_2, 2);

//@ tier=extended cap=1800 funcs=ExecuteContext::execute_,binop_int,binop bound=operands_any_i32_sign_extended;frame_of_3_slots mem=24
step_harness!(c01_step_MultiplyInt, {
    // 64x64 symbolic multiplication with overflow detection is a known SAT-hard kernel; the
    // operands are restricted to the i32 range (overflow then never happens: also asserted).
    let s = any_scalar();
    let (a, b): (i32, i32) = (kani::any(), kani::any());
    let (a, b) = (a as VmInt, b as VmInt);
    let exp = match a.checked_mul(b) {
        Some(r) => Expect { frame: Some(pad(&[s, V::I(r)])) },
        None => Expect { frame: None },
    };
    check_step(MultiplyInt, &[repr_of(s), Int(a), Int(b)], (None, None), exp);
});

//@ tier=extended cap=1800 funcs=ExecuteContext::execute_,binop_int,binop bound=multiply_overflow_boundaries;one_operand_power_of_two mem=24
step_harness!(c01_step_MultiplyInt_pow2, {
    // any a, b = +-2^k: decides the overflow boundary exactly without a general multiplier
    let s = any_scalar();
    let a: VmInt = not_mark(kani::any());
    let k: u32 = kani::any();
    kani::assume(k < 63);
    let b: VmInt = if kani::any() { 1i64 << k } else { -(1i64 << k) };
    let exp = match a.checked_mul(b) {
        Some(r) => Expect { frame: Some(pad(&[s, V::I(r)])) },
        None => Expect { frame: None },
    };
    check_step(MultiplyInt, &[repr_of(s), Int(a), Int(b)], (None, None), exp);
});

macro_rules! int_cmp {
    ($name: ident, $instr: ident, $op: tt) => {
        step_harness!($name, {
            let s = any_scalar();
            let (a, b): (VmInt, VmInt) = (kani::any(), kani::any());
            let r = V::T(if a $op b { 1 } else { 0 });
            check_step($instr, &[repr_of(s), Int(a), Int(b)], (None, None), Expect { frame: Some(pad(&[s, r])) });
        });
    };
}
//@ tier=quick cap=600 mem=6 funcs=ExecuteContext::execute_,binop_bool,binop bound=operands_any_i64
int_cmp!(c01_step_IntLT, IntLT, <);
//@ tier=thorough cap=1800 funcs=ExecuteContext::execute_,binop_bool,binop bound=operands_any_i64
int_cmp!(c01_step_IntEQ, IntEQ, ==);

macro_rules! byte_arith {
    ($name: ident, $instr: ident, $op: ident) => {
        step_harness!($name, {
            let s = any_scalar();
            let (a, b): (u8, u8) = (kani::any(), kani::any());
            let exp = match a.$op(b) {
                Some(r) => Expect { frame: Some(pad(&[s, V::B(r)])) },
                None => Expect { frame: None },
            };
            check_step($instr, &[repr_of(s), Byte(a), Byte(b)], (None, None), exp);
        });
    };
}
//@ tier=thorough cap=1800 funcs=ExecuteContext::execute_,binop_byte,binop bound=operands_any_u8 mem=24
byte_arith!(c01_step_AddByte, AddByte, checked_add);
//@ tier=thorough cap=1800 funcs=ExecuteContext::execute_,binop_byte,binop bound=operands_any_u8 mem=24
byte_arith!(c01_step_SubtractByte, SubtractByte, checked_sub);
//@ tier=extended cap=1800 funcs=ExecuteContext::execute_,binop_byte,binop bound=operands_any_u8 mem=24
byte_arith!(c01_step_MultiplyByte, MultiplyByte, checked_mul);
//@ tier=thorough cap=1800 funcs=ExecuteContext::execute_,binop_byte,binop bound=operands_any_u8 mem=24
byte_arith!(c01_step_DivideByte, DivideByte, checked_div);

macro_rules! byte_cmp {
    ($name: ident, $instr: ident, $op: tt) => {
        step_harness!($name, {
            let s = any_scalar();
            let (a, b): (u8, u8) = (kani::any(), kani::any());
            let r = V::T(if a $op b { 1 } else { 0 });
            check_step($instr, &[repr_of(s), Byte(a), Byte(b)], (None, None), Expect { frame: Some(pad(&[s, r])) });
        });
    };
}
//@ tier=thorough cap=1800 funcs=ExecuteContext::execute_,binop_bool,binop bound=operands_any_u8
byte_cmp!(c01_step_ByteLT, ByteLT, <);
//@ tier=quick cap=600 mem=6 funcs=ExecuteContext::execute_,binop_bool,binop bound=operands_any_u8
byte_cmp!(c01_step_ByteEQ, ByteEQ, ==);

macro_rules! float_arith {
    ($name: ident, $instr: ident, $op: tt) => {
        step_harness!($name, {
            let s = any_scalar();
            let (a, b): (u64, u64) = (kani::any(), kani::any());
            let (fa, fb) = (f64::from_bits(a), f64::from_bits(b));
            let r = fa $op fb;
            let st = stop();
            let out = run(vec![$instr, st[0], st[1], Return], &[repr_of(s), Float(fa), Float(fb)], (None, None));
            assert!($instr.adjust() == -1);
            match out {
                Outcome::Failed { message, frame, len } => {
                    assert!(message && len == 3);
                    assert!(frame[0] == s && frame[2] == V::I(MARK));
                    // IEEE-754 result, bit for bit, except that any NaN is as good as another
                    match frame[1] {
                        V::F(bits) => assert!(bits == r.to_bits() || (r.is_nan() && f64::from_bits(bits).is_nan())),
                        _ => assert!(false, "float result expected"),
                    }
                }
                _ => assert!(false, "interpreter did not stop at the stop device"),
            }
            kani::cover!(true, "step completed");
        });
    };
}
//@ tier=thorough cap=1800 funcs=ExecuteContext::execute_,binop_f64,binop bound=operands_any_f64_bits
float_arith!(c01_step_AddFloat, AddFloat, +);
//@ tier=thorough cap=1800 funcs=ExecuteContext::execute_,binop_f64,binop bound=operands_any_f64_bits
float_arith!(c01_step_SubtractFloat, SubtractFloat, -);

macro_rules! float_cmp {
    ($name: ident, $instr: ident, $op: tt) => {
        step_harness!($name, {
            let s = any_scalar();
            let (a, b): (u64, u64) = (kani::any(), kani::any());
            let (fa, fb) = (f64::from_bits(a), f64::from_bits(b));
            let r = V::T(if fa $op fb { 1 } else { 0 });
            check_step($instr, &[repr_of(s), Float(fa), Float(fb)], (None, None), Expect { frame: Some(pad(&[s, r])) });
        });
    };
}
//@ tier=thorough cap=1800 funcs=ExecuteContext::execute_,binop_bool,binop bound=operands_any_f64_bits
float_cmp!(c01_step_FloatLT, FloatLT, <);
//@ tier=quick cap=600 mem=6 funcs=ExecuteContext::execute_,binop_bool,binop bound=operands_any_f64_bits
float_cmp!(c01_step_FloatEQ, FloatEQ, ==);

// ---------------------------------------------------------------------------------------------
// vacuity canary
// ---------------------------------------------------------------------------------------------

//@ tier=quick cap=600 mem=6
step_harness!(c01_step_canary, {
    let (a, b, x) = (any_scalar(), any_scalar(), kani::any());
    check_step(PushInt(x), &[repr_of(a), repr_of(b)], (None, None), Expect { frame: Some(pad(&[a, b, V::I(x)])) });
    assert!(false, "canary");
});

// ---------------------------------------------------------------------------------------------
// construction (variants / records): the zero-argument forms push a bare tag; `CloseData` fills a
// previously allocated object from the stack; `ConstructVariant` with arguments allocates through
// the real `Gc::alloc` (TypeInfo interning stubbed).
// Written in the third session; NOT decided yet (the one probe was stopped at 16 GB after 8 min
// while the machine was short of memory): extended tier, not registered.
// ---------------------------------------------------------------------------------------------
use crate::gc::__verif_common__vm_gc::type_info_stub;

//@ tier=extended cap=1800 mem=12 funcs=ExecuteContext::execute_ bound=frame_of_2_slots;tag_any_u32;args=0
step_harness!(c01_step_ConstructVariant_0, {
    let (a, b) = (any_scalar(), any_scalar());
    let tag: VmTag = kani::any();
    check_step(ConstructVariant { tag, args: 0 }, &[repr_of(a), repr_of(b)], (None, None), Expect { frame: Some(pad(&[a, b, V::T(tag)])) });
});

//@ tier=extended cap=1800 mem=12 funcs=ExecuteContext::execute_ bound=frame_of_2_slots;tag_any_u32;args=0
step_harness!(c01_step_NewVariant_0, {
    let (a, b) = (any_scalar(), any_scalar());
    let tag: VmTag = kani::any();
    check_step(NewVariant { tag, args: 0 }, &[repr_of(a), repr_of(b)], (None, None), Expect { frame: Some(pad(&[a, b, V::T(tag)])) });
});

//@ tier=extended cap=1800 mem=12 funcs=ExecuteContext::execute_ bound=frame_of_2_slots;args=0
step_harness!(c01_step_ConstructRecord_0, {
    let (a, b) = (any_scalar(), any_scalar());
    check_step(ConstructRecord { record: 0, args: 0 }, &[repr_of(a), repr_of(b)], (None, None), Expect { frame: Some(pad(&[a, b, V::T(0)])) });
});

//@ tier=extended cap=1800 mem=12 funcs=ExecuteContext::execute_,StackFrame::pop_many bound=uninitialised_data_of_2_fields_at_slot_0;2_values_on_top
step_harness!(c01_step_CloseData, {
    let (x, y) = (any_scalar(), any_scalar());
    let tag: VmTag = kani::any();
    // the object `NewVariant`/`NewRecord` left in slot 0, fields still zero
    let d = data(tag, Some(V::I(0)), Some(V::I(0)));
    let addr = &*d as *const DataStruct as usize;
    check_step(
        CloseData { index: 0 },
        &[ValueRepr::Data(unsafe { d.unrooted() }), repr_of(x), repr_of(y)],
        (None, None),
        Expect { frame: Some(pad(&[V::D(addr)])) },
    );
    // the fields now hold the two values, in stack order; the tag is untouched
    assert!(d.tag() == tag && d.fields.len() == 2);
    assert!(shape(&d.fields[0]) == x, "first field = lower stack slot");
    assert!(shape(&d.fields[1]) == y, "second field = top of stack");
});

//@ tier=extended cap=2400 mem=24 funcs=ExecuteContext::execute_,thread::alloc,Gc::alloc_and_collect,Gc::alloc_owned,Def::initialize,StackFrame::pop_many bound=frame_of_2_slots;tag_any_u32;args=1
#[kani::proof]
#[kani::unwind(4)]
#[kani::stub(rstd::fmt::format, fmt_stub)]
#[kani::stub(Gc::get_type_info, type_info_stub)]
fn c01_alloc_ConstructVariant_1() {
    let (a, b) = (any_scalar(), any_scalar());
    let tag: VmTag = kani::any();
    let st = stop();
    let i = ConstructVariant { tag, args: 1 };
    let out = run(vec![i, st[0], st[1], Return], &[repr_of(a), repr_of(b)], (None, None));
    match out {
        Outcome::Failed { message, frame, len } => {
            assert!(message && len == 3, "one argument replaced by one object, then the marker");
            assert!(frame[0] == a && frame[2] == V::I(MARK));
            match frame[1] {
                V::D(addr) => {
                    let d = unsafe { &*(addr as *const DataStruct) };
                    assert!(d.tag() == tag && d.fields.len() == 1);
                    assert!(shape(&d.fields[0]) == b, "the field is the popped argument");
                }
                _ => assert!(false, "a data object is pushed"),
            }
            assert!(i.adjust() == 0);
        }
        _ => assert!(false, "interpreter did not stop at the stop device"),
    }
    kani::cover!(true, "step checked");
}
