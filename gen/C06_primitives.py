#!/usr/bin/env python3
"""Generate the C06 "primitive never panics" harnesses from the record! tables of
vm/src/primitives.rs in the scratch copy of the repository.

usage: C06_primitives.py <repo copy> <outdir>      (prints {"uncovered": [...]} on stdout)

For each `name => primitive!(N, ["vm name",] <expr>)` entry of the scalar tables one harness
`c06_prim_<table>_<name>` is emitted that calls <expr> with every argument tuple (SymArg) and
forgets the result.  Kani's built-in checks (panic, overflow, slice index, unwrap, ...) decide
"returns for every argument tuple".  The expression text is copied verbatim, so the harness
calls whatever the table exports.
"""
import json
import os
import re
import sys

repo, outdir = sys.argv[1], sys.argv[2]
src = open(os.path.join(repo, "vm/src/primitives.rs")).read()

# tables whose entries take only scalars and &str
SCALAR_TABLES = {"load_float": "float", "load_byte": "byte", "load_int": "int", "load_char": "char",
                 "load_string": "string", "load": "prim"}
# tables that need VM objects (arrays, userdata, paths + file system): not generated
VM_TABLES = {"load_array": "array (needs GC arrays and an initialised VM)",
             "load_fs": "fs (file system, userdata)",
             "load_path": "path (OsStr/Path, file system)",
             "load_string_buf": "st_string (userdata behind a Mutex)"}
# entries of scalar tables the generator cannot serve, with the reason
SKIP = {
    ("string", "append"): "WithVM argument, allocates on the VM heap",
    ("string", "append_char"): "WithVM argument, allocates on the VM heap",
    ("string", "from_char"): "WithVM argument, allocates on the VM heap",
    ("string", "from_utf8"): "OpaqueRef<[u8]> argument (GC array)",
    ("prim", "error"): "raw extern function, reads the VM stack",
    ("prim", "discriminant_value"): "raw extern function, reads the VM stack",
}
# libm-backed float functions: CBMC/Kani has no model for the foreign functions
LIBM = {"powf", "exp", "exp2", "ln", "log2", "log10", "cbrt", "hypot", "sin", "cos", "tan", "acos", "asin",
        "atan", "atan2", "sin_cos", "exp_m1", "ln_1p", "sinh", "cosh", "tanh", "acosh", "asinh", "atanh"}
# entries that are decided only in the thorough tier (measured slow) / with their own caps
THOROUGH = {
    ("string", "find"), ("string", "rfind"),
    ("string", "trim_start_matches"), ("string", "trim_end_matches"),
}
# entries that did not finish under the thorough cap in this sandbox (recorded as uncovered)
INFEASIBLE = {
    ("float", "parse"): "dec2flt on a symbolic string: CBMC out of memory (12 GB) after 94 s",
    ("int", "pow"): "64-bit symbolic multiply chain (exponentiation by squaring): no verdict in 9 min",
    ("string", "contains"): "str::contains (TwoWaySearcher) on two symbolic strings: no verdict in 25 min at 12 GB (find/rfind, the same searcher with an index result, are decided in about 8 min each)",
    ("char", "is_alphabetic"): "core::unicode skip_search table walk (binary search + run loop up to 1519 entries): unwinding bound out of reach; std code, specified panic-free",
    ("char", "is_alphanumeric"): "core::unicode skip_search table walk: unwinding bound out of reach; std code, specified panic-free",
    ("char", "is_numeric"): "core::unicode skip_search table walk: unwinding bound out of reach; std code, specified panic-free",
}
# per-entry unwind bound (default 6)
UNWIND = {("byte", "pow"): 34}


def find_tables(text):
    """yield (loader fn name, table body text)"""
    for m in re.finditer(r"pub fn (load\w*)\s*(?:<[^>]*>)?\s*\(", text):
        name = m.group(1)
        i = text.find("record! {", m.end())
        nxt = re.search(r"\npub fn ", text[m.end():])
        if i < 0 or (nxt and i > m.end() + nxt.start()):
            continue
        j = i + len("record! {")
        depth = 1
        while depth:
            c = text[j]
            if c == "{":
                depth += 1
            elif c == "}":
                depth -= 1
            j += 1
        yield name, text[i + len("record! {"):j - 1]


def split_top(body):
    """split a record! body at top-level commas"""
    out, depth, cur = [], 0, ""
    i = 0
    while i < len(body):
        c = body[i]
        if c in "([{":
            depth += 1
        elif c in ")]}":
            depth -= 1
        if c == "," and depth == 0:
            out.append(cur)
            cur = ""
        else:
            cur += c
        i += 1
    if cur.strip():
        out.append(cur)
    return out


def parse_entry(e):
    m = re.match(r"\s*(\w+)\s*=>\s*primitive!\s*\((.*)\)\s*$", e, re.S)
    if not m:
        return None
    name, inner = m.group(1), m.group(2)
    parts = split_top(inner)
    try:
        n = int(parts[0].strip())
    except ValueError:
        return None
    rest = [p.strip() for p in parts[1:]]
    if not rest:
        return None
    if rest[0].startswith('"'):
        vmname, expr = rest[0].strip('"'), ", ".join(rest[1:])
    else:
        expr = ", ".join(rest)
        vmname = expr.replace("::", ".") if re.fullmatch(r"[\w:<>&' ]+", expr) else name
    if not expr:
        return None
    return name, n, vmname, expr


uncovered = []
harnesses = []
for loader, body in find_tables(src):
    if loader in VM_TABLES:
        for e in split_top(body):
            pe = parse_entry(e)
            if pe:
                uncovered.append({"primitive": pe[2], "reason": VM_TABLES[loader]})
        continue
    if loader not in SCALAR_TABLES:
        uncovered.append({"table": loader, "reason": "unknown table: not classified by the generator"})
        continue
    table = SCALAR_TABLES[loader]
    for e in split_top(body):
        pe = parse_entry(e)
        if not pe:
            if "primitive" in e:
                uncovered.append({"entry": e.strip()[:80], "reason": "entry form not understood by the generator"})
            continue
        name, n, vmname, expr = pe
        if (table, name) in SKIP:
            uncovered.append({"primitive": vmname, "reason": SKIP[(table, name)]})
            continue
        if table == "float" and name in LIBM:
            uncovered.append({"primitive": vmname, "reason": "lowers to a libm foreign function; no CBMC model"})
            continue
        if (table, name) in INFEASIBLE:
            uncovered.append({"primitive": vmname, "reason": INFEASIBLE[(table, name)]})
            continue
        tier = "thorough" if (table, name) in THOROUGH else "quick"
        harnesses.append((table, name, n, vmname, expr, tier))

out = []
out.append("""//@@ append-to: vm/src/primitives.rs
//! GENERATED by /verif/gen/C06_primitives.py from the record! tables of vm/src/primitives.rs.
//! One harness per exported scalar primitive: called with every argument tuple, must return.
#![allow(unused_imports, dead_code, non_snake_case, unused_unsafe, deprecated)]
use super::*;
use crate::real_std as rstd;
use crate::api::Getable;
use crate::Variants;

fn fmt_stub(_: rstd::fmt::Arguments<'_>) -> StdString {
    StdString::new()
}

fn fake_thread() -> &'static Thread {
    let b: Box<rstd::mem::MaybeUninit<Thread>> = Box::new(rstd::mem::MaybeUninit::uninit());
    unsafe { &*(Box::leak(b).as_ptr()) }
}

/// Argument of a primitive as the `primitive!` wrapper would hand it over: integers go through
/// the real `Getable::from_value` conversion of an arbitrary VM `Int`.
trait SymArg {
    fn sym() -> Self;
}
macro_rules! int_sym {
    ($($t: ty)*) => { $(
        impl SymArg for $t {
            fn sym() -> Self {
                <$t as Getable>::from_value(fake_thread(), Variants::int(kani::any()))
            }
        }
    )* }
}
int_sym! { i16 i32 i64 u16 u32 u64 usize isize }
impl SymArg for u8 {
    fn sym() -> Self { kani::any() }
}
impl SymArg for f64 {
    fn sym() -> Self { f64::from_bits(kani::any()) }
}
impl SymArg for bool {
    fn sym() -> Self { kani::any() }
}
impl SymArg for () {
    fn sym() -> Self { () }
}
impl SymArg for char {
    fn sym() -> Self {
        // a Gluon Char is always a Unicode scalar value
        let c: char = kani::any();
        c
    }
}
fn ascii() -> u8 { let b: u8 = kani::any(); kani::assume(b < 0x80); b }
fn cont() -> u8 { let b: u8 = kani::any(); kani::assume(b >= 0x80 && b <= 0xBF); b }
fn two(buf: &mut [u8; 4], at: usize) {
    let l: u8 = kani::any(); kani::assume(l >= 0xC2 && l <= 0xDF);
    buf[at] = l; buf[at + 1] = cont();
}
fn three(buf: &mut [u8; 4], at: usize) {
    let l: u8 = kani::any(); kani::assume(l >= 0xE0 && l <= 0xEF);
    let c1 = cont();
    kani::assume(l != 0xE0 || c1 >= 0xA0);
    kani::assume(l != 0xED || c1 <= 0x9F);
    buf[at] = l; buf[at + 1] = c1; buf[at + 2] = cont();
}
fn four(buf: &mut [u8; 4]) {
    let l: u8 = kani::any(); kani::assume(l >= 0xF0 && l <= 0xF4);
    let c1 = cont();
    kani::assume(l != 0xF0 || c1 >= 0x90);
    kani::assume(l != 0xF4 || c1 <= 0x8F);
    buf[0] = l; buf[1] = c1; buf[2] = cont(); buf[3] = cont();
}
/// every string of at most two Unicode scalar values and at most four bytes
impl SymArg for &'static str {
    fn sym() -> Self {
        let buf: &'static mut [u8; 4] = Box::leak(Box::new([0u8; 4]));
        let sel: u8 = kani::any();
        let len = match sel {
            0 => 0,
            1 => { buf[0] = ascii(); 1 }
            2 => { buf[0] = ascii(); buf[1] = ascii(); 2 }
            3 => { two(buf, 0); 2 }
            4 => { three(buf, 0); 3 }
            5 => { four(buf); 4 }
            6 => { buf[0] = ascii(); two(buf, 1); 3 }
            7 => { two(buf, 0); buf[2] = ascii(); 3 }
            8 => { two(buf, 0); two(buf, 2); 4 }
            9 => { buf[0] = ascii(); three(buf, 1); 4 }
            10 => { three(buf, 0); buf[3] = ascii(); 4 }
            _ => { kani::assume(false); 0 }
        };
        let b: &'static [u8; 4] = buf;
        match len {
            0 => "",
            1 => unsafe { rstd::str::from_utf8_unchecked(&b[..1]) },
            2 => unsafe { rstd::str::from_utf8_unchecked(&b[..2]) },
            3 => unsafe { rstd::str::from_utf8_unchecked(&b[..3]) },
            _ => unsafe { rstd::str::from_utf8_unchecked(&b[..4]) },
        }
    }
}

fn call1<A: SymArg, R>(f: impl FnOnce(A) -> R) {
    let r = f(A::sym());
    kani::cover!(true, "returned");
    rstd::mem::forget(r);
}
fn call2<A: SymArg, B: SymArg, R>(f: impl FnOnce(A, B) -> R) {
    let r = f(A::sym(), B::sym());
    kani::cover!(true, "returned");
    rstd::mem::forget(r);
}
fn call3<A: SymArg, B: SymArg, C: SymArg, R>(f: impl FnOnce(A, B, C) -> R) {
    let r = f(A::sym(), B::sym(), C::sym());
    kani::cover!(true, "returned");
    rstd::mem::forget(r);
}

//@ tier=quick cap=120 mem=3
#[kani::proof]
#[kani::stub(rstd::fmt::format, fmt_stub)]
fn c06_prim_canary() {
    call2(std::int::prim::wrapping_add);
    assert!(false, "canary");
}
""")
seen = set()
for table, name, n, vmname, expr, tier in harnesses:
    hname = "c06_prim_%s_%s" % (table, name)
    if hname in seen:
        continue
    seen.add(hname)
    cap = 900 if tier == "thorough" else 300
    expr1 = " ".join(expr.split())
    out.append("//@ tier=%s cap=%d mem=3 funcs=%s bound=%s" % (
        tier, cap, vmname.replace(",", ";").replace(" ", ""),
        "all_argument_tuples;ints_64bit;chars_any_scalar;strings_le_2_scalars_le_4_bytes"))
    out.append("#[kani::proof]\n#[kani::unwind(%d)]\n#[kani::stub(rstd::fmt::format, fmt_stub)]" % UNWIND.get((table, name), 6))
    out.append("fn %s() {\n    call%d(%s);\n}\n" % (hname, n, expr1))

os.makedirs(outdir, exist_ok=True)
open(os.path.join(outdir, "C06__vm_primitives.rs"), "w").write("\n".join(out))
print(json.dumps({"uncovered": uncovered, "generated": len(seen)}))
