//@@ append-to: vm/src/thread.rs
//! C05, root enumeration across the thread tree: when a thread collects, `Roots::mark_child_roots`
//! must visit **every** descendant thread (children, grandchildren, ...) exactly once -- it locks
//! the descendant's context, traces its roots into the collecting `Gc` and returns the lock so that
//! `CollectScope::scope` sweeps that descendant's heap afterwards.  A descendant that is traced
//! (mark bits set through `Thread::trace`) but not returned is never swept: its objects keep stale
//! mark bits and its own next collection frees values that are still reachable.
//!
//! The tree is built from real hand-built `Thread` values (COMMON__vm_thread.rs) linked through the
//! real `child_threads` slabs.  What is decided is the ENUMERATION; marking itself is decided by the
//! mark-phase harnesses in C05__vm_gc.rs.  Stub (part of the claim): `Gc::mark` answers "already
//! marked", which turns every `GcPtr::trace` into a no-op.  With the real `mark`, CBMC cannot tell
//! that the (empty) stacks and root lists are empty and explores the whole `Trace` dispatch --
//! every value variant, every `Userdata` implementation, threads recursively -- in each unwinding:
//! measured, neither the harness nor its canary finished in 25 min.
#![allow(unused_imports, dead_code, non_snake_case, unused_unsafe, unused_variables, unused_mut)]
use super::*;
use super::__verif_common__vm_thread::{fake_global, lock_context, mk_thread};
use crate::real_std as rstd;
use rstd::mem::ManuallyDrop;

fn fmt_stub(_: rstd::fmt::Arguments<'_>) -> rstd::string::String {
    rstd::string::String::new()
}

fn mark_stub<T: ?Sized>(_: &mut Gc, _: &GcPtr<T>) -> bool {
    true
}

fn ptr(t: &'static Thread) -> GcPtr<Thread> {
    unsafe { GcPtr::from_raw(t as *const Thread) }
}

/// registers `child` in `parent.child_threads`, as `Thread::new_thread` does
fn adopt(parent: &'static Thread, child: &'static Thread) {
    let mut slab = ManuallyDrop::new(parent.child_threads.write().unwrap());
    slab.insert(ptr(child));
    unsafe { ManuallyDrop::drop(&mut slab) }; // release the lock
}

fn same(a: &GcPtr<Thread>, b: &'static Thread) -> bool {
    &**a as *const Thread == b as *const Thread
}

/// root -> a -> b (-> d), optionally a second child c of root: after `mark_child_roots` from root
/// every descendant is locked exactly once, and nothing else is.
fn descendants(with_c: bool, with_d: bool, canary: bool) {
    let g = fake_global();
    let g0 = Generation::default();
    let root = mk_thread(g, None, g0.next());
    let a = mk_thread(g, Some(root), g0.next().next());
    let b = mk_thread(g, Some(a), g0.next().next().next());
    adopt(root, a);
    adopt(a, b);
    let c = if with_c {
        let c = mk_thread(g, Some(root), g0.next().next());
        adopt(root, c);
        Some(c)
    } else {
        None
    };
    let d = if with_d {
        let d = mk_thread(g, Some(b), g0.next().next().next().next());
        adopt(b, d);
        Some(d)
    } else {
        None
    };

    let mut guard = ManuallyDrop::new(lock_context(root));
    let ctx: &mut Context = &mut **guard;
    let (gc, stack) = (&mut ctx.gc, &ctx.stack);
    let root_ptr = ptr(root);
    let roots = Roots { vm: &root_ptr, stack };
    let locks = ManuallyDrop::new(unsafe { roots.mark_child_roots(gc) });

    let n = locks.len();
    let has = |t: &'static Thread| {
        (n > 0 && same(&locks[0].2, t)) as usize
            + (n > 1 && same(&locks[1].2, t)) as usize
            + (n > 2 && same(&locks[2].2, t)) as usize
            + (n > 3 && same(&locks[3].2, t)) as usize
            + (n > 4 && same(&locks[4].2, t)) as usize
    };
    assert!(has(a) == 1, "the child is locked (and will be swept) exactly once");
    assert!(has(b) == 1, "the grandchild is locked (and will be swept) exactly once");
    if let Some(c) = c {
        assert!(has(c) == 1, "the second child is locked exactly once");
    }
    if let Some(d) = d {
        assert!(has(d) == 1, "the great-grandchild is locked exactly once");
    }
    assert!(has(root) == 0, "the collecting thread itself is not re-locked");
    assert!(n == 2 + with_c as usize + with_d as usize, "nothing else is locked");
    kani::cover!(true, "descendants enumerated");
    if canary {
        assert!(false, "canary");
    }
}

//@ tier=quick cap=900 mem=15 funcs=Roots::mark_child_roots,Roots::trace,Thread::trace_fields_except_stack bound=chain_root_child_grandchild;Gc::mark_stubbed
#[kani::proof]
#[kani::unwind(5)]
#[kani::stub(rstd::fmt::format, fmt_stub)]
#[kani::stub(crate::gc::Gc::mark, mark_stub)]
fn c05_child_roots_chain() {
    descendants(false, false, false);
}

//@ tier=thorough cap=3000 mem=20 funcs=Roots::mark_child_roots,Roots::trace,Thread::trace_fields_except_stack bound=root_with_two_children_grandchild_and_great_grandchild;Gc::mark_stubbed
#[kani::proof]
#[kani::unwind(7)]
#[kani::stub(rstd::fmt::format, fmt_stub)]
#[kani::stub(crate::gc::Gc::mark, mark_stub)]
fn c05_child_roots_tree() {
    descendants(true, true, false);
}

//@ tier=quick cap=900 mem=15
#[kani::proof]
#[kani::unwind(5)]
#[kani::stub(rstd::fmt::format, fmt_stub)]
#[kani::stub(crate::gc::Gc::mark, mark_stub)]
fn c05_child_roots_canary() {
    descendants(false, false, true);
}
