//@@ append-to: parser/src/layout.rs
//! C09 (the front end never hangs): the look-ahead scan of the layout algorithm,
//! `Layout::scan_continue_block`, which decides inside a `rec` group whether the next binding
//! continues the group.  It peeks ahead through attributes and doc comments.  The real tokenizer
//! never returns `None`: once the text is exhausted it yields `EOF` tokens for ever
//! (`token.rs`: "Return EOF instead of None").  So the scan must stop at the first `EOF` it
//! peeks; if it asks for a token after that, it asks for infinitely many (every further token is
//! `EOF` again) and buffers them all.
//!
//! Harness: the real `Layout` over a token source that delivers `k <= 2` symbolic payload-free
//! tokens (any of `#[`, `]`, `let`, `type`, `rec`, `,`) and then `EOF` for ever, like the
//! tokenizer; one call of `scan_continue_block` for context `Let` / `Type` and a symbolic first
//! token.  Oracle: at most one `EOF` is ever requested from the source, and the answer is the
//! documented one (`true` iff the expected keyword follows, skipping only whole attributes).
#![allow(unused_imports, dead_code, non_snake_case, unused_unsafe, unused_variables, unused_mut)]
use super::*;
use std::mem::ManuallyDrop;

fn fmt_stub(_: std::fmt::Arguments<'_>) -> String {
    String::new()
}

fn tok(sel: u8) -> BorrowedToken<'static> {
    match sel {
        0 => Token::AttributeOpen,
        1 => Token::RBracket,
        2 => Token::Let,
        3 => Token::Type,
        4 => Token::Rec,
        _ => Token::Comma,
    }
}

fn loc(i: u32) -> Location {
    Location { line: Line::from(0), column: Column::from(i + 1), absolute: BytePos::from(i + 1) }
}

/// `k` tokens, then `EOF` for ever -- the contract of `Tokenizer::next`
struct Source {
    sel: [u8; 2],
    k: usize,
    delivered: usize,
    eofs: usize,
}

impl Iterator for Source {
    type Item = token::Result<SpannedToken<'static>>;
    fn next(&mut self) -> Option<Self::Item> {
        let i = self.delivered;
        self.delivered += 1;
        let t = if i < self.k {
            tok(self.sel[i])
        } else {
            self.eofs += 1;
            if self.eofs > 1 {
                // The real tokenizer would deliver EOF again, for ever.  The harness records the
                // request (the oracle rejects it) and ends the stream so that the scan under test
                // stays bounded even when it is wrong.
                return None;
            }
            Token::EOF
        };
        Some(Ok(pos::spanned2(loc(i as u32 + 1), loc(i as u32 + 1), t)))
    }
}

/// reference: does the expected keyword follow, skipping whole `#[ ... ]` groups only?
fn reference(expected: u8, first: u8, rest: &[u8]) -> bool {
    let mut in_attr = false;
    let at = |i: usize| if i == 0 { Some(first) } else if i - 1 < rest.len() { Some(rest[i - 1]) } else { None };
    let mut i = 0;
    while i < 4 {
        match at(i) {
            None => return false, // EOF
            Some(t) if t == expected => return true,
            Some(0) => in_attr = true,
            Some(1) => in_attr = false,
            Some(_) if !in_attr => return false,
            Some(_) => (),
        }
        i += 1;
    }
    false
}

fn scan_step(max_k: usize, canary: bool) {
    let k: usize = kani::any();
    kani::assume(k <= max_k);
    let sel: [u8; 2] = [kani::any(), kani::any()];
    kani::assume(sel[0] < 6 && sel[1] < 6);
    let first: u8 = kani::any();
    kani::assume(first < 6);
    let is_let: bool = kani::any();
    let mut layout = ManuallyDrop::new(Layout::new(Source { sel, k, delivered: 0, eofs: 0 }));
    let first_token = tok(first);
    let context = if is_let { Context::Let } else { Context::Type };
    let r = ManuallyDrop::new(layout.scan_continue_block(context, &first_token));
    assert!(layout.tokens.eofs <= 1, "the scan stops at the first EOF it peeks (the tokenizer yields EOF for ever)");
    assert!(layout.unprocessed_tokens.len() == layout.tokens.delivered.min(k + 1), "every peeked token is kept for the parser");
    let expected = if is_let { 2 } else { 3 };
    match &*r {
        Ok(b) => assert!(*b == reference(expected, first, &sel[..k]), "continues the group iff the keyword follows the attributes"),
        Err(_) => assert!(false, "a token source without errors gives no error"),
    }
    kani::cover!(matches!(&*r, Ok(true)) && layout.tokens.delivered == 2, "keyword found behind an attribute");
    kani::cover!(layout.tokens.eofs == 1, "scan reached the end of the input");
    if canary {
        assert!(false, "canary");
    }
}

//@ tier=quick cap=900 funcs=Layout::scan_continue_block,Layout::peek_token bound=first_token_(any_of_6_kinds)_then_EOF_for_ever;context_Let_or_Type
#[kani::proof]
#[kani::unwind(4)]
#[kani::stub(std::fmt::format, fmt_stub)]
fn c09_layout_scan_eof_0() {
    scan_step(0, false);
}

//@ tier=thorough cap=1800 funcs=Layout::scan_continue_block,Layout::peek_token bound=first_token_and_up_to_1_more_payload_free_token_then_EOF_for_ever;context_Let_or_Type
#[kani::proof]
#[kani::unwind(5)]
#[kani::stub(std::fmt::format, fmt_stub)]
fn c09_layout_scan_eof_1() {
    scan_step(1, false);
}

//@ tier=extended cap=1800 funcs=Layout::scan_continue_block,Layout::peek_token bound=first_token_and_up_to_2_more_payload_free_tokens_then_EOF_for_ever;context_Let_or_Type
#[kani::proof]
#[kani::unwind(6)]
#[kani::stub(std::fmt::format, fmt_stub)]
fn c09_layout_scan_eof_2() {
    scan_step(2, false);
}

//@ tier=quick cap=900
#[kani::proof]
#[kani::unwind(4)]
#[kani::stub(std::fmt::format, fmt_stub)]
fn c09_layout_scan_canary() {
    scan_step(0, true);
}
