//@@ append-to: parser/src/infix.rs
//@@ crate-feature: allocator_api
//! C08 kernel (second sentence of the property): the operator-precedence re-parse
//! `infix::reparse` groups a chain of infix operators exactly as the precedences and
//! associativities dictate and reports conflicting associativities at one level as an error.
//!
//! The chain is given as the grammar produces it (right-nested); **precedence (any `i32`) and
//! associativity of every operator are symbolic**.  Checked against a reference grouping written
//! from the documentation (higher precedence binds tighter; equal precedence: both left =>
//! left-nested, both right => right-nested, mixed => `ConflictingFixities`), including the spans
//! of the rebuilt nodes (`[lhs.start, rhs.end]`) and of the error (`[stack_op.start, next_op.end]`).
//!
//! Environment (all part of the claim):
//!  * `Id` is a harness-local `OpId(u8)` (`reparse` is generic);
//!  * `OpTable::get_at` is replaced by a two/three entry table of symbolic `OpMeta` (no hash map
//!    or string traffic: the fixity *lookup* is not the subject, the shift/reduce loop is);
//!  * `Arc::drop_slow` is replaced by a no-op: every `SpannedIdent` carries an `ArcType` whose
//!    drop glue (a recursive walk over `Type`) otherwise swamps the symbolic execution at every
//!    drop site; freeing memory is not the subject;
//!  * `ArenaRef::alloc` is replaced by `Box::leak` (see `alloc_stub`);
//!  * `format!` stubbed; the input nodes live in leaked boxes.
#![allow(unused_imports, dead_code, non_snake_case, unused_unsafe, unused_variables, unused_mut, static_mut_refs)]
use super::*;
use crate::base::ast::{DisplayEnv, Literal, TypedIdent};
use crate::base::types::ArcType;
use std::mem::ManuallyDrop;

#[derive(Clone, PartialEq, Eq, Hash, Debug)]
struct OpId(u8);
impl AsRef<str> for OpId {
    fn as_ref(&self) -> &str {
        match self.0 {
            0 => "a",
            1 => "b",
            _ => "c",
        }
    }
}
struct Env;
impl DisplayEnv for Env {
    type Ident = OpId;
    fn string<'a>(&'a self, _: &'a OpId) -> &'a str {
        ""
    }
}
impl IdentEnv for Env {
    fn from_str(&mut self, _: &str) -> OpId {
        OpId(0)
    }
}

fn fmt_stub(_: std::fmt::Arguments<'_>) -> String {
    String::new()
}

fn drop_slow_stub<T: ?Sized, A: std::alloc::Allocator>(_: &mut std::sync::Arc<T, A>) {}

/// rebuilt nodes go to leaked boxes instead of the typed arena (whose slow path -- chunk growth
/// with `Vec::drain`/`extend` and the drop glue of `Spanned<Expr>` -- dominated the symbolic
/// execution); where a node is stored is not the subject
fn alloc_stub<'a, 'ast, Id, T>(_: ast::ArenaRef<'a, 'ast, Id>, value: T) -> &'ast mut T
where
    T: ast::AstAlloc<'ast, Id> + 'ast,
    'a: 'a,
    'ast: 'ast,
{
    Box::leak(Box::new(value))
}

static mut TABLE: [OpMeta; 3] = [OpMeta { precedence: 0, fixity: Fixity::Left }; 3];

/// generic like the method it replaces; the operator index is read back through `AsRef<str>`
fn get_at_stub<'t, Id>(_: &'t OpTable<Id>, name: &SpannedIdent<Id>) -> Result<&'t OpMeta, Spanned<Error, BytePos>>
where
    Id: Eq + Hash + AsRef<str> + ::std::fmt::Debug,
{
    let i = name.value.name.as_ref().as_bytes()[0];
    unsafe {
        Ok(if i == b'a' {
            &TABLE[0]
        } else if i == b'b' {
            &TABLE[1]
        } else {
            &TABLE[2]
        })
    }
}

fn any_meta() -> OpMeta {
    OpMeta { precedence: kani::any(), fixity: if kani::any() { Fixity::Left } else { Fixity::Right } }
}

type E = SpannedExpr<'static, OpId>;

fn leak(e: E) -> &'static mut E {
    Box::leak(Box::new(e))
}
/// argument i: the literal i at [10i, 10i+1]
fn arg(i: u32) -> &'static mut E {
    leak(pos::spanned2(BytePos::from(10 * i), BytePos::from(10 * i + 1), Expr::Literal(Literal::Int(i as i64))))
}
/// operator i at [10i+3, 10i+4], sharing one `ArcType`
fn opid(i: u32, typ: &ArcType<OpId>) -> SpannedIdent<OpId> {
    pos::spanned2(BytePos::from(10 * i + 3), BytePos::from(10 * i + 4), TypedIdent::new2(OpId(i as u8), typ.clone()))
}
fn infix(lhs: &'static mut E, op: SpannedIdent<OpId>, rhs: &'static mut E) -> &'static mut E {
    let span = pos::span(lhs.span.start(), rhs.span.end());
    leak(pos::spanned(span, Expr::Infix { lhs, op, rhs, implicit_args: &mut [] }))
}

/// what a node of the result is: argument i, or operator i applied to two sub-nodes
fn is_arg(e: &E, i: u32) -> bool {
    e.span.start() == BytePos::from(10 * i)
        && e.span.end() == BytePos::from(10 * i + 1)
        && matches!(&e.value, Expr::Literal(Literal::Int(v)) if *v == i as i64)
}
/// `e` is `op_k` applied to (lhs, rhs) with the documented span; returns the children
fn node<'e>(e: &'e E, k: u32, from_arg: u32, to_arg: u32) -> Option<(&'e E, &'e E)> {
    match &e.value {
        Expr::Infix { lhs, op, rhs, implicit_args } => {
            if op.value.name.0 as u32 == k
                && op.span.start() == BytePos::from(10 * k + 3)
                && implicit_args.is_empty()
                && e.span.start() == BytePos::from(10 * from_arg)
                && e.span.end() == BytePos::from(10 * to_arg + 1)
            {
                Some((&**lhs, &**rhs))
            } else {
                None
            }
        }
        _ => None,
    }
}

/// a0 op0 (a1 op1 a2), two symbolic operators
fn chain2(canary: bool) {
    let (m0, m1) = (any_meta(), any_meta());
    unsafe {
        TABLE[0] = m0;
        TABLE[1] = m1;
    }
    let typ = ManuallyDrop::new(ArcType::<OpId>::default());
    let expr = infix(arg(0), opid(0, &typ), infix(arg(1), opid(1, &typ), arg(2)));
    // a real AST arena for the rebuilt nodes, leaked (never dropped)
    let tag: &'static ast::InvariantLifetime<'static> = Box::leak(Box::new(ast::InvariantLifetime::default()));
    let arena: &'static ast::Arena<'static, OpId> = Box::leak(Box::new(unsafe { ast::Arena::new(tag) }));
    let ops = ManuallyDrop::new(OpTable::<OpId> { operators: FnvMap::default() });
    let r = ManuallyDrop::new(reparse(arena.borrow(), expr, &Env, &ops));
    // reference
    #[derive(PartialEq)]
    enum Want {
        Left,
        Right,
        Conflict,
    }
    let want = if m1.precedence > m0.precedence {
        Want::Right
    } else if m1.precedence < m0.precedence {
        Want::Left
    } else {
        match (m0.fixity, m1.fixity) {
            (Fixity::Left, Fixity::Left) => Want::Left,
            (Fixity::Right, Fixity::Right) => Want::Right,
            _ => Want::Conflict,
        }
    };
    match &*r {
        Ok(e) => {
            let e: &E = &**e;
            match want {
                Want::Right => {
                    let top = node(e, 0, 0, 2);
                    assert!(top.is_some(), "a0 op0 (a1 op1 a2): top node");
                    let (l, r) = top.unwrap();
                    assert!(is_arg(l, 0));
                    let inner = node(r, 1, 1, 2);
                    assert!(inner.is_some(), "a0 op0 (a1 op1 a2): inner node");
                    let (l, r) = inner.unwrap();
                    assert!(is_arg(l, 1) && is_arg(r, 2));
                    kani::cover!(m1.precedence == m0.precedence, "right-associative pair");
                    kani::cover!(m1.precedence > m0.precedence, "tighter second operator");
                }
                Want::Left => {
                    let top = node(e, 1, 0, 2);
                    assert!(top.is_some(), "(a0 op0 a1) op1 a2: top node");
                    let (l, r) = top.unwrap();
                    assert!(is_arg(r, 2));
                    let inner = node(l, 0, 0, 1);
                    assert!(inner.is_some(), "(a0 op0 a1) op1 a2: inner node");
                    let (l, r) = inner.unwrap();
                    assert!(is_arg(l, 0) && is_arg(r, 1));
                    kani::cover!(m1.precedence == m0.precedence, "left-associative pair");
                    kani::cover!(m1.precedence < m0.precedence, "looser second operator");
                }
                Want::Conflict => assert!(false, "conflicting associativities must be reported"),
            }
        }
        Err((err, _)) => {
            assert!(want == Want::Conflict, "an error is reported only for conflicting associativities");
            assert!(matches!(err.value, Error::ConflictingFixities((_, a), (_, b)) if a == m0 && b == m1));
            assert!(err.span.start() == BytePos::from(3) && err.span.end() == BytePos::from(14), "error span");
            kani::cover!(true, "conflict reported");
        }
    }
    if canary {
        assert!(false, "canary");
    }
}

//@ tier=quick cap=1200 mem=20 funcs=infix::reparse,Infixes::next bound=chain_of_2_operators;any_i32_precedence_and_fixity_each;get_at_and_Arc_drop_slow_stubbed
#[kani::proof]
#[kani::unwind(7)]
#[kani::stub(std::fmt::format, fmt_stub)]
#[kani::stub(std::sync::Arc::drop_slow, drop_slow_stub)]
#[kani::stub(OpTable::get_at, get_at_stub)]
#[kani::stub(crate::base::ast::ArenaRef::alloc, alloc_stub)]
fn c08_reparse_2() {
    chain2(false);
}

//@ tier=quick cap=1200 mem=20
#[kani::proof]
#[kani::unwind(7)]
#[kani::stub(std::fmt::format, fmt_stub)]
#[kani::stub(std::sync::Arc::drop_slow, drop_slow_stub)]
#[kani::stub(OpTable::get_at, get_at_stub)]
#[kani::stub(crate::base::ast::ArenaRef::alloc, alloc_stub)]
fn c08_reparse_canary() {
    chain2(true);
}
