//@@ append-to: vm/src/reference.rs
//! C13, a transfer site: deep-cloning a reference cell (`Reference::deep_clone`, reached when a
//! value that contains a `ref` crosses heaps -- channel send, spawned action, host handle moved
//! between sibling threads).  The copy must be a complete inhabitant of the RECEIVING heap: it is
//! allocated by the receiver's collector, holds the copied value, and is **owned by the receiving
//! thread** -- `<-` (store) clones the stored value into the heap of `cell.thread`, so a copy that
//! still names the sender as its owner makes the receiver hold pointers into the sender's heap.
//!
//! Source and destination are real hand-built threads (as in the `can_share` harnesses) that are
//! siblings under one root; the cell holds an arbitrary `Int`.  Stubs: `Gc::get_type_info`
//! (TypeInfo interning cache) and `Cloner::deep_clone` (the nested value clone, see below).
#![allow(unused_imports, dead_code, non_snake_case, unused_unsafe, unused_variables, unused_mut)]
use super::*;
use crate::gc::{Gc, Generation};
use crate::real_std as rstd;
use crate::thread::__verif_common__vm_thread::{fake_global, lock_context, mk_thread};
use crate::value::ValueRepr;
use rstd::mem::ManuallyDrop;

fn fmt_stub(_: rstd::fmt::Arguments<'_>) -> rstd::string::String {
    rstd::string::String::new()
}

/// The nested value clone is the `Cloner`'s own business (share-or-copy per pointer; the cell holds
/// a scalar here).  Behind the cell's `Mutex` the variant is not syntactically known, so the real
/// `deep_clone` made CBMC explore every arm of `deep_clone_inner` -- strings, records, closures,
/// every `Userdata` implementation, recursively -- and not even the canary finished in 20 min.
fn deep_clone_stub<'t, 'gc>(c: &'gc mut Cloner<'t>, value: &Value) -> Result<crate::Variants<'gc>>
where
    't: 't,
{
    unsafe { Ok(crate::Variants::with_root(value, &*c)) }
}

fn clone_cell(canary: bool) {
    let g = fake_global();
    let g0 = Generation::default();
    let root = mk_thread(g, None, g0);
    let src = mk_thread(g, Some(root), g0.next());
    let dst = mk_thread(g, Some(root), g0.next());
    let x: i64 = kani::any();
    let cell: Reference<A> = Reference {
        value: Mutex::new(Value::from(ValueRepr::Int(x))),
        thread: unsafe { GcPtr::from_raw(src as *const Thread) },
        _marker: PhantomData,
    };
    let cell = ManuallyDrop::new(cell);
    let mut guard = ManuallyDrop::new(lock_context(dst));
    let dst_generation = guard.gc.generation();
    let mut cloner = ManuallyDrop::new(Cloner::new(dst, &mut guard.gc));
    let r = ManuallyDrop::new(Userdata::deep_clone(&*cell, &mut *cloner));
    match &*r {
        Ok(copy) => {
            // the copy lives in the receiver's heap
            assert!(
                copy.generation().can_contain_values_from(dst_generation) && dst_generation.can_contain_values_from(copy.generation()), "the copy is allocated by the receiver's collector");
            // it is a reference cell (the concrete type is known here)
            let ud: &dyn Userdata = &****copy;
            let new_cell: &Reference<A> = unsafe { &*(ud as *const dyn Userdata as *const Reference<A>) };
            assert!(
                &*new_cell.thread as *const Thread == dst as *const Thread,
                "the copy is owned by the receiving thread"
            );
            let v = ManuallyDrop::new(new_cell.value.lock().unwrap());
            assert!(matches!(v.get_repr(), ValueRepr::Int(y) if *y == x), "the copy holds the same value");
            kani::cover!(true, "cell cloned");
        }
        Err(_) => assert!(false, "cloning a cell that holds an Int cannot fail"),
    }
    if canary {
        assert!(false, "canary");
    }
}

//@ tier=thorough cap=1800 mem=20 funcs=Reference::deep_clone,Gc::alloc bound=cell_holding_any_i64;source_and_destination_sibling_threads
#[kani::proof]
#[kani::unwind(5)]
#[kani::stub(rstd::fmt::format, fmt_stub)]
#[kani::stub(crate::gc::Gc::get_type_info, crate::gc::__verif_common__vm_gc::type_info_stub)]
#[kani::stub(crate::value::Cloner::deep_clone, deep_clone_stub)]
fn c13_clone_reference_cell() {
    clone_cell(false);
}

//@ tier=thorough cap=1800 mem=20
#[kani::proof]
#[kani::unwind(5)]
#[kani::stub(rstd::fmt::format, fmt_stub)]
#[kani::stub(crate::gc::Gc::get_type_info, crate::gc::__verif_common__vm_gc::type_info_stub)]
#[kani::stub(crate::value::Cloner::deep_clone, deep_clone_stub)]
fn c13_clone_reference_canary() {
    clone_cell(true);
}
