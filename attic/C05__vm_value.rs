//@@ append-to: vm/src/value.rs
//! C05: the `Trace` implementations of the VM's own heap objects (derived `Trace` for `Value`,
//! `ValueRepr`, `DataStruct`, `Array<Value>`) reach every child pointer.  Objects are allocated by
//! the real `Gc::alloc` through the real `Def` data definition (the allocation `ConstructVariant` /
//! `push_new_data` perform); every field of the outer object is symbolic (a scalar or a pointer to
//! the inner object); the root is traced through the real `Trace for Value`; afterwards
//! *marked(inner) iff some field points to it*.  Sweep frees by mark bit only, so a child pointer the
//! derived impl does not visit is a reachable value that gets freed.
//! Stub: `Gc::get_type_info` (interning cache).
#![allow(unused_imports, dead_code, non_snake_case, unused_unsafe, unused_variables, unused_mut)]
use super::*;
use crate::gc::__verif_common__vm_gc::{is_marked, type_info_stub};
use crate::gc::{Generation, Trace};
use crate::real_std as rstd;
use rstd::mem::ManuallyDrop;

fn fmt_stub(_: rstd::fmt::Arguments<'_>) -> rstd::string::String {
    rstd::string::String::new()
}

fn new_data(gc: &mut Gc, tag: VmTag, elems: &[Value]) -> GcPtr<DataStruct> {
    let r = ManuallyDrop::new(gc.alloc(Def { tag, elems }));
    match &*r {
        Ok(p) => unsafe { p.clone_unrooted() },
        Err(_) => {
            kani::assume(false);
            unreachable!()
        }
    }
}

fn marked<T: ?Sized>(p: &GcPtr<T>) -> bool {
    is_marked(p)
}

/// a field of the outer object: an arbitrary `Int` or a pointer to `inner`
fn field(points: bool, inner: &GcPtr<DataStruct>) -> Value {
    if points {
        Value::from(ValueRepr::Data(unsafe { inner.unrooted() }))
    } else {
        Value::from(ValueRepr::Int(kani::any()))
    }
}

fn trace_data(p0: bool, p1: bool, canary: bool) {
    let mut gc = ManuallyDrop::new(Gc::new(Generation::default(), usize::MAX));
    let x: VmInt = kani::any();
    let leaf = [Value::from(ValueRepr::Int(x))];
    let inner = new_data(&mut gc, 1, &leaf);
    let fields = ManuallyDrop::new([field(p0, &inner), field(p1, &inner)]);
    let outer = new_data(&mut gc, kani::any(), &fields[..]);
    assert!(!marked(&inner) && !marked(&outer), "fresh objects are unmarked");
    let root = ManuallyDrop::new(Value::from(ValueRepr::Data(unsafe { outer.unrooted() })));
    root.trace(&mut gc);
    assert!(marked(&outer), "the root object is marked");
    assert!(marked(&inner) == (p0 || p1), "child marked iff some field points to it");
    // tracing does not disturb the objects
    assert!(outer.fields.len() == 2 && inner.fields.len() == 1);
    assert!(matches!(inner.fields[0].get_repr(), ValueRepr::Int(i) if *i == x));
    kani::cover!(true, "traced");
    if canary {
        assert!(false, "canary");
    }
}

// The shape of each field (scalar / pointer) is concrete per harness: with a symbolic variant CBMC
// explores the `Trace` impl of every `ValueRepr` variant behind every field, including the dynamic
// dispatch over all `Userdata` implementations (no verdict in 15 min); payloads stay symbolic.
macro_rules! trace_harness {
    ($name: ident, $p0: literal, $p1: literal, $canary: literal) => {
        #[kani::proof]
        #[kani::unwind(4)]
        #[kani::stub(rstd::fmt::format, fmt_stub)]
        #[kani::stub(Gc::get_type_info, type_info_stub)]
        fn $name() {
            trace_data($p0, $p1, $canary);
        }
    };
}

//@ tier=quick cap=900 funcs=Gc::alloc,Def::initialize,Value::trace,ValueRepr::trace,DataStruct::trace,Array::trace,GcPtr::trace,Gc::mark bound=outer_data_of_2_fields;only_the_FIRST_field_points_to_the_child;payloads_any_i64
trace_harness!(c05_trace_data_first, true, false, false);
//@ tier=quick cap=900 funcs=Gc::alloc,Def::initialize,Value::trace,ValueRepr::trace,DataStruct::trace,Array::trace,GcPtr::trace,Gc::mark bound=outer_data_of_2_fields;only_the_LAST_field_points_to_the_child;payloads_any_i64
trace_harness!(c05_trace_data_last, false, true, false);
//@ tier=quick cap=900 funcs=Gc::alloc,Def::initialize,Value::trace,ValueRepr::trace,DataStruct::trace,Array::trace,GcPtr::trace,Gc::mark bound=outer_data_of_2_scalar_fields;child_unreachable
trace_harness!(c05_trace_data_none, false, false, false);
//@ tier=quick cap=900
trace_harness!(c05_trace_data_canary, true, false, true);
