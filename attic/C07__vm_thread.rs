//@@ append-to: vm/src/thread.rs
//! C07, interrupt requests: the scheduler loop `OwnedContext::execute` polls the thread's interrupt
//! flag at its head, before it looks at the current frame.  Every call and every return re-enters
//! that loop head (by reading: `execute_` returns to it after `do_call` / `Return`), so "polled at
//! the head, for every flag value and every kind of current frame" is the step the promptness claim
//! rests on.  Hand-built real `Thread` (COMMON), real `Mutex<Context>`, real `Stack`.
#![allow(unused_imports, dead_code, non_snake_case, unused_unsafe, unused_variables, unused_mut)]
use super::__verif_common__vm_thread::{fake_global, lock_context, mk_thread};
use super::*;
use crate::real_std as rstd;
use rstd::mem::{ManuallyDrop, MaybeUninit};

fn fmt_stub(_: rstd::fmt::Arguments<'_>) -> rstd::string::String {
    rstd::string::String::new()
}

fn interrupt_step(canary: bool) {
    let g = fake_global();
    let t = mk_thread(g, None, Generation::default());
    let flag: bool = kani::any();
    if flag {
        t.interrupt();
    }
    assert!(t.interrupted() == flag);
    let mut guard = lock_context(t);
    rstd::mem::forget(StackFrame::<State>::new_frame(&mut guard.stack, 0, State::Unknown));
    let x: VmInt = kani::any();
    guard.stack.push(ValueRepr::Int(x));
    let oc = OwnedContext { thread: t, context: guard };
    let waker = rstd::task::Waker::noop();
    let mut cx = task::Context::from_waker(&waker);
    let r = ManuallyDrop::new(oc.execute(&mut cx));
    match &*r {
        Poll::Ready(Err(Error::Interrupted)) => {
            assert!(flag, "Interrupted is reported only when an interrupt was requested");
            kani::cover!(true, "interrupted");
        }
        Poll::Ready(Ok(Some(c))) => {
            assert!(!flag, "a requested interrupt stops the program at the next loop head");
            assert!(c.stack.len() == 1 && c.stack.get_frames().len() == 1, "host frame untouched");
            kani::cover!(true, "not interrupted: control returns to the host frame");
        }
        _ => assert!(false, "no other outcome from a host (Unknown) frame"),
    }
    // the request stays visible until the host clears it
    assert!(t.interrupted() == flag);
    if canary {
        assert!(false, "canary");
    }
}

//@ tier=quick cap=900 funcs=OwnedContext::execute,Thread::interrupt,Thread::interrupted bound=flag_any_bool;current_frame=host_frame_(State::Unknown);one_stack_slot
#[kani::proof]
#[kani::unwind(3)]
#[kani::stub(rstd::fmt::format, fmt_stub)]
fn c07_interrupt_polled() {
    interrupt_step(false);
}

//@ tier=quick cap=900
#[kani::proof]
#[kani::unwind(3)]
#[kani::stub(rstd::fmt::format, fmt_stub)]
fn c07_interrupt_canary() {
    interrupt_step(true);
}
